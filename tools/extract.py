#!/usr/bin/env python3
"""Mechanical extraction of real items from /repo/src into a single Verus file.

A unit template (units/<unit>.rs) is ordinary Verus text with directive comments:

  //@include spec/prelude.rs
  //@type <file> :: enum Formula            (or: struct Name)
  //@fn <file> :: <container> [:: <container>...] :: fn <name>
  //@ .ret r                                  name the return value   (D3)
  //@ .spec                                   requires/ensures/decreases text, spliced before the body (D3)
  //@     ensures r == spec_gamma(self),
  //@ .loop <k> [as <name>]                   invariant/decreases text for the k-th loop of the body; `as it` names the
  //@                                         ghost iterator (`for x in it: e`) (D3)
  //@ .closure "<text prefix>" as "<header>"  annotate a closure: header replaces |params|, body gets braces (D3)
  //@     ensures ...
  //@ .hint before "<statement text prefix>"  ghost proof block inserted before a statement (D4)
  //@     proof { ... }
  //@ .attr #[verifier::...]                  attribute put in front of the fn (D3)
  //@ .apit F0                                argument-position impl Trait -> named type parameter (D8)
  //@ .fmt                                    format!("..{a}..") -> fmt_concat(...) (D6)
  //@ .sig only                               copy the signature only, body replaced by `;` (trait method declarations)
  //@end

Everything between the directives is copied as is.  Function text is copied
byte-for-byte from the working tree except for the closed list of adaptations
above; each application is recorded in the report.
"""
import hashlib
import json
import os
import re
import sys

sys.path.insert(0, os.path.dirname(os.path.abspath(__file__)))
from rslex import tokenize, significant, match_close, norm, LexError, OPEN, CLOSE  # noqa: E402


class ExtractError(Exception):
    def __init__(self, kind, msg):
        super().__init__(f"{kind}: {msg}")
        self.kind = kind
        self.msg = msg


ITEM_KW = {"fn", "impl", "trait", "enum", "struct", "mod"}


class Source:
    def __init__(self, root, rel):
        self.rel = rel
        self.path = os.path.join(root, rel)
        try:
            self.text = open(self.path, encoding="utf-8").read()
        except OSError as e:
            raise ExtractError("lost-anchor", f"cannot read {rel}: {e}")
        try:
            self.toks = tokenize(self.text)
        except LexError as e:
            raise ExtractError("lex", f"{rel}: {e}")
        self.sig = significant(self.toks)

    def line_of(self, pos):
        return self.text.count("\n", 0, pos) + 1


def header_norm(h):
    return norm(h)


def find_children(src, lo, hi):
    """Yield (kw_index, header_norm, body_open_index or None, end_index) for items whose
    keyword token lies directly inside sig[lo:hi] (depth 0 relative to that range)."""
    sig = src.sig
    i = lo
    while i < hi:
        t = sig[i]
        if t.kind == "punct" and t.text in OPEN:
            i = match_close(sig, i) + 1
            continue
        if t.kind == "ident" and t.text in ITEM_KW:
            # `for` in `impl X for Y` is not a keyword we look for; `fn` inside types
            # (fn pointers, FnMut) is not an ident `fn` followed by an ident.
            if t.text == "fn" and not (i + 1 < hi and sig[i + 1].kind == "ident"):
                i += 1
                continue
            # header runs up to the first `{` or `;` at paren depth 0
            j = i + 1
            body = None
            while j < hi:
                u = sig[j]
                if u.kind == "punct" and u.text in "([":
                    j = match_close(sig, j) + 1
                    continue
                if u.kind == "punct" and u.text == "{":
                    body = j
                    break
                if u.kind == "punct" and u.text == ";":
                    break
                j += 1
            if j >= hi:
                break
            head = " ".join(x.text for x in sig[i:j])
            if body is not None:
                end = match_close(sig, body)
            else:
                end = j
            yield (i, head, body, end)
            i = end + 1
            continue
        i += 1


def head_matches(head, want):
    """`want` is e.g. 'impl Gamma for Formula', 'fn gamma', 'enum Formula', 'trait Apply'."""
    w = header_norm(want)
    if head == w:
        return True
    kw = w.split(" ", 1)[0]
    if kw in ("fn", "enum", "struct", "trait", "mod"):
        # name match: `fn name` followed by generics/params
        parts = w.split(" ")
        h = head.split(" ")
        return len(parts) == 2 and len(h) >= 2 and h[0] == kw and h[1] == parts[1]
    # impl headers: allow a trailing where-clause in the source
    return head.startswith(w + " where ")


def locate(src, path):
    """path: list of headers from outermost container to the item. Returns
    (start_sig_index_of_keyword, body_open, end) of the item.  Several containers with the
    same header (e.g. two `impl Atom` blocks) are all searched; the item itself must be unique."""
    def rec(lo, hi, depth):
        want = path[depth]
        cands = [c for c in find_children(src, lo, hi) if head_matches(c[1], want)]
        if depth + 1 == len(path):
            return cands
        out = []
        for c in cands:
            if c[2] is not None:
                out += rec(c[2] + 1, c[3], depth + 1)
        return out
    found = rec(0, len(src.sig), 0)
    if not found:
        raise ExtractError("lost-anchor", f"{src.rel}: no item `{' :: '.join(path)}`")
    if len(found) > 1:
        raise ExtractError("lost-anchor", f"{src.rel}: {len(found)} items match `{' :: '.join(path)}`")
    return found[0]


def item_start_pos(src, kw_index):
    """Walk back over `pub`, `pub(crate)`, attributes: returns (text position where the item
    proper starts [visibility included], list of attribute texts before it)."""
    sig = src.sig
    i = kw_index
    # visibility / qualifiers
    while i > 0:
        p = sig[i - 1]
        if p.kind == "ident" and p.text in ("pub", "const", "unsafe", "async", "default"):
            i -= 1
            continue
        if p.kind == "punct" and p.text == ")" and i >= 2:
            # pub(crate)
            k = i - 1
            depth = 0
            while k >= 0:
                if sig[k].text == ")":
                    depth += 1
                elif sig[k].text == "(":
                    depth -= 1
                    if depth == 0:
                        break
                k -= 1
            if k > 0 and sig[k - 1].kind == "ident" and sig[k - 1].text == "pub":
                i = k - 1
                continue
        break
    start = sig[i].s
    attrs = []
    while i >= 2 and sig[i - 1].text == "]":
        k = i - 1
        depth = 0
        while k >= 0:
            if sig[k].text == "]":
                depth += 1
            elif sig[k].text == "[":
                depth -= 1
                if depth == 0:
                    break
            k -= 1
        if k >= 1 and sig[k - 1].text == "#":
            attrs.insert(0, src.text[sig[k - 1].s:sig[i - 1].e])
            i = k - 1
        else:
            break
    return start, attrs


def sha(text):
    return hashlib.sha256(text.encode()).hexdigest()


# ---------------------------------------------------------------------------------------
# function adaptation (works on the function's own text, re-lexed)

class FnText:
    def __init__(self, text, where):
        self.text = text
        self.where = where
        self.edits = []  # (pos, del_len, insert_text)

    def relex(self):
        self.toks = tokenize(self.text)
        self.sig = significant(self.toks)

    def apply_edits(self):
        out = self.text
        for pos, dl, ins in sorted(self.edits, key=lambda e: -e[0]):
            out = out[:pos] + ins + out[pos + dl:]
        self.text = out
        self.edits = []


def fn_parts(ft):
    """indices into ft.sig: (fn_kw, name, params_open, params_close, body_open or None)"""
    sig = ft.sig
    i = 0
    while not (sig[i].kind == "ident" and sig[i].text == "fn"):
        i += 1
    j = i + 2
    # generics
    if sig[j].text == "<":
        depth = 0
        while True:
            if sig[j].text == "<":
                depth += 1
            elif sig[j].text == ">" and sig[j - 1].text != "-":
                depth -= 1
                if depth == 0:
                    j += 1
                    break
            j += 1
    assert sig[j].text == "(", (ft.where, sig[j])
    pc = match_close(sig, j)
    k = pc + 1
    body = None
    while k < len(sig):
        if sig[k].kind == "punct" and sig[k].text in "([":
            k = match_close(sig, k) + 1
            continue
        if sig[k].text == "{":
            body = k
            break
        if sig[k].text == ";":
            break
        k += 1
    return i, i + 1, j, pc, body


def normalise_bool_assign(ft, ads):
    """D11: `x &= e;` / `x |= e;` (not-short-circuited bool update, unsupported by Verus) becomes
    `{ let d11_t = e; x = x && d11_t; }` / `... x || d11_t`: e is still evaluated exactly once and first, so
    this is the same computation whenever it type-checks (it type-checks only for bool)."""
    n = 0
    while True:
        sig = ft.sig
        hit = None
        for k in range(1, len(sig) - 1):
            if sig[k].text in ("&", "|") and sig[k + 1].text == "=" and sig[k + 1].s == sig[k].e and sig[k - 1].kind == "ident" \
                    and sig[k + 2].text != "=":
                # statement start: previous-previous token is `;`, `{` or `}`
                if k >= 2 and sig[k - 2].text not in (";", "{", "}"):
                    continue
                m = k + 2
                while m < len(sig) and sig[m].text != ";":
                    if sig[m].text in OPEN:
                        m = match_close(sig, m)
                    m += 1
                if m >= len(sig):
                    continue
                hit = (k, m)
                break
        if hit is None:
            break
        k, m = hit
        x = sig[k - 1].text
        e = ft.text[sig[k + 2].s:sig[m - 1].e]
        op = "&&" if sig[k].text == "&" else "||"
        ft.edits.append((sig[k - 1].s, sig[m].e - sig[k - 1].s, f"{{ let d11_t = {e}; {x} = {x} {op} d11_t; }}"))
        ft.apply_edits()
        ft.relex()
        n += 1
    if n:
        ads.append({"rule": "D11", "what": f"{n} bool compound assignment(s) `&=`/`|=` rewritten with a temporary and `&&`/`||`"})



def split_or_guard_arms(ft, ads):
    """D12: a match arm that has both an or-pattern and a guard (`P1 | P2 if g => e`, also with the `|`
    nested inside the pattern) is not supported by Verus; it is split into one arm per alternative, in
    order, each with the same guard and body: `P1 if g => e, P2 if g => e` — the desugaring given by the
    Rust reference for or-patterns with guards."""
    n = 0
    guard = 0
    while guard < 50:
        guard += 1
        sig = ft.sig
        done = True
        for mi, t in enumerate(sig):
            if not (t.kind == "ident" and t.text == "match"):
                continue
            # find the match body `{`
            k = mi + 1
            while k < len(sig) and sig[k].text != "{":
                if sig[k].text in "([":
                    k = match_close(sig, k)
                k += 1
            if k >= len(sig):
                continue
            close = match_close(sig, k)
            a = k + 1
            while a < close:
                # pattern: a .. arrow
                j = a
                if_at = None
                while j < close and not (sig[j].text == "=" and sig[j + 1].text == ">" and sig[j + 1].s == sig[j].e):
                    if sig[j].text in OPEN:
                        j = match_close(sig, j)
                    elif sig[j].kind == "ident" and sig[j].text == "if" and if_at is None:
                        if_at = j
                    j += 1
                if j >= close:
                    break
                arrow = j
                # body: arrow+2 .. end
                b = arrow + 2
                if sig[b].text == "{":
                    e = match_close(sig, b)
                    end_tok = e
                    nxt = e + 1
                    if nxt < close and sig[nxt].text == ",":
                        end_tok = nxt
                        nxt += 1
                else:
                    e = b
                    while e < close and sig[e].text != ",":
                        if sig[e].text in OPEN:
                            e = match_close(sig, e)
                        e += 1
                    end_tok = e if e < close else close - 1
                    nxt = e + 1 if e < close else close
                if if_at is not None:
                    # look for a `|` in the pattern (a .. if_at), at any depth; closures cannot occur in patterns
                    bars = [x for x in range(a, if_at) if sig[x].text == "|" and not (x == a)]
                    if bars:
                        # innermost group containing the first bar
                        bar = bars[0]
                        # find enclosing delimiter of `bar` within the pattern
                        depth = 0
                        lo = a
                        for x in range(bar - 1, a - 1, -1):
                            if sig[x].text in CLOSE:
                                depth += 1
                            elif sig[x].text in OPEN:
                                if depth == 0:
                                    lo = x + 1
                                    break
                                depth -= 1
                        hi = if_at
                        if lo > a:
                            hi = match_close(sig, lo - 1)
                        # the alternation may be one field of a struct pattern: restrict to the comma-separated segment
                        seg_lo, seg_hi = lo, hi
                        x = lo
                        cur = lo
                        while x < hi:
                            if sig[x].text in OPEN:
                                x = match_close(sig, x)
                            elif sig[x].text == ",":
                                if cur <= bar < x:
                                    seg_lo, seg_hi = cur, x
                                    break
                                cur = x + 1
                            x += 1
                        else:
                            seg_lo, seg_hi = cur, hi
                        # field pattern `name: ALT | ALT`: alternatives start after the `:` at depth 0
                        alt_lo = seg_lo
                        x = seg_lo
                        while x < seg_hi:
                            if sig[x].text in OPEN:
                                x = match_close(sig, x)
                            elif sig[x].text == ":" and sig[x + 1].text != ":" and sig[x - 1].text != ":":
                                alt_lo = x + 1
                                break
                            x += 1
                        # split alternatives at depth-0 bars
                        alts = []
                        cur = alt_lo
                        x = alt_lo
                        while x < seg_hi:
                            if sig[x].text in OPEN:
                                x = match_close(sig, x)
                            elif sig[x].text == "|":
                                alts.append((cur, x))
                                cur = x + 1
                            x += 1
                        alts.append((cur, seg_hi))
                        if len(alts) >= 2 and all(u < v for u, v in alts):
                            arm_s, arm_e = sig[a].s, sig[end_tok].e
                            pre = ft.text[arm_s:sig[alt_lo].s]
                            post = ft.text[sig[seg_hi - 1].e:arm_e]
                            body_has_comma = sig[end_tok].text == ","
                            pieces = []
                            for (u, v) in alts:
                                alt = ft.text[sig[u].s:sig[v - 1].e]
                                arm = pre + alt + post
                                if not body_has_comma and not arm.rstrip().endswith("}"):
                                    arm = arm + ","
                                pieces.append(arm)
                            ft.edits.append((arm_s, arm_e - arm_s, "\n".join(pieces)))
                            ft.apply_edits()
                            ft.relex()
                            n += 1
                            done = False
                            break
                a = nxt
            if not done:
                break
        if done:
            break
    if n:
        ads.append({"rule": "D12", "what": f"{n} match arm(s) with or-pattern and guard split into one arm per alternative"})


def fresh_search_stub(ft, ads, counter=[0]):
    """D13: the infinite-iterator expression
         Variable::sequence(&V).find(|C| { !A1.contains(C) && ... && *C != W1 ... }).unwrap()
    (Iterator::find over (1..).map(..): outside Verus' subset) is replaced by a call to a generated stub whose
    ASSUMED contract is read off the expression itself: the result has V's sort and satisfies every conjunct of the
    predicate.  What is assumed is only that `sequence` yields infinitely many distinct names of V's sort and that
    `find` returns an element satisfying the predicate; which sets are avoided is taken from the real code."""
    sig = ft.sig
    stubs = []
    k = 0
    while k + 8 < len(sig):
        if [t.text for t in sig[k:k + 6]] == ["Variable", ":", ":", "sequence", "(", "&"] and sig[k + 7].text == ")":
            v = sig[k + 6].text
            j = k + 8
            if not ([t.text for t in sig[j:j + 4]] == [".", "find", "(", "|"] and sig[j + 5].text == "|"):
                raise ExtractError("unsupported", f"{ft.where}: Variable::sequence(..) not followed by .find(|c| ..)")
            c = sig[j + 4].text
            find_open = j + 2
            find_close = match_close(sig, find_open)
            if [t.text for t in sig[find_close + 1:find_close + 5]] != [".", "unwrap", "(", ")"]:
                raise ExtractError("unsupported", f"{ft.where}: .find(..) not followed by .unwrap()")
            b0, b1 = j + 6, find_close
            if sig[b0].text == "{" and match_close(sig, b0) == b1 - 1:
                b0, b1 = b0 + 1, b1 - 1
            conj = []
            cur = []
            x = b0
            while x < b1:
                if sig[x].text == "&" and sig[x + 1].text == "&" and sig[x + 1].s == sig[x].e:
                    conj.append(cur)
                    cur = []
                    x += 2
                    continue
                cur.append(sig[x].text)
                x += 1
            conj.append(cur)
            sets, neqs = [], []
            for cj in conj:
                if len(cj) == 7 and cj[0] == "!" and cj[2:] == [".", "contains", "(", c, ")"]:
                    sets.append(cj[1])
                elif cj == ["*", c, "!", "=", cj[4]] and len(cj) == 5:
                    neqs.append(cj[4])
                elif len(cj) == 5 and cj[1:] == ["!", "=", "*", c]:
                    neqs.append(cj[0])
                else:
                    raise ExtractError("unsupported", f"{ft.where}: fresh-name predicate conjunct `{' '.join(cj)}` not of the form !S.contains(c) / *c != w")
            n = counter[0]
            counter[0] += 1
            gens = ", ".join(f"A{i}: VarSeq" for i in range(len(sets)))
            params = ["prefix: &Variable"] + [f"a{i}: &A{i}" for i in range(len(sets))] + [f"w{i}: &Variable" for i in range(len(neqs))]
            ens = ["r.sort == prefix.sort"] + [f"!a{i}.vseq().contains(r)" for i in range(len(sets))] + [f"r != *w{i}" for i in range(len(neqs))]
            stub = (f"// D13 stub generated from the fresh-name search expression of {ft.where}: avoids {sets}, differs from {neqs}\n"
                    f"#[verifier::external_body]\nfn d13_fresh_{n}{'<' + gens + '>' if gens else ''}({', '.join(params)}) -> (r: Variable)\n"
                    f"    ensures {', '.join(ens)},\n{{ unimplemented!() }}\n")
            call = f"Self::d13_fresh_{n}(&{v}" + "".join(f", &{a}" for a in sets) + "".join(f", &{w}" for w in neqs) + ")"
            ft.edits.append((sig[k].s, sig[find_close + 4].e - sig[k].s, call))
            stubs.append(stub)
            ads.append({"rule": "D13", "what": f"fresh-name search over Variable::sequence(&{v}) replaced by a stub with the assumed contract: same sort, not in {sets}, different from {neqs}"})
            k = find_close + 5
            continue
        k += 1
    if not stubs:
        raise ExtractError("lost-anchor", f"{ft.where}: .fresh_search but no `Variable::sequence(&v).find(..).unwrap()` expression")
    ft.apply_edits()
    ft.relex()
    return "\n".join(stubs)


def desugar_enumerate_loops(ft, ads):
    """D14: `for (I, X) in EXPR.enumerate() { BODY }` (Enumerate is not specified in vstd and cannot be specified
    from outside it) becomes
        { let mut d14_kN: usize = 0; for X in EXPR { let I = d14_kN; d14_kN = d14_kN + 1; BODY } }
    — the counter is bound and advanced first thing in the body, so `continue` cannot skip it; the addition
    carries Verus' overflow obligation."""
    n = 0
    while True:
        sig = ft.sig
        hit = None
        for k, t in enumerate(sig):
            if t.kind == "ident" and t.text == "for" and k + 1 < len(sig) and sig[k + 1].text == "(":
                pc = match_close(sig, k + 1)
                if not (sig[pc + 1].kind == "ident" and sig[pc + 1].text == "in"):
                    continue
                # pattern (I, X): split at the top-level comma
                inner = sig[k + 2:pc]
                depth = 0
                comma = None
                for x, u in enumerate(inner):
                    if u.text in OPEN:
                        depth += 1
                    elif u.text in CLOSE:
                        depth -= 1
                    elif u.text == "," and depth == 0:
                        comma = x
                        break
                if comma is None:
                    continue
                # find loop body brace
                m = pc + 2
                while sig[m].text != "{":
                    if sig[m].text in "([":
                        m = match_close(sig, m)
                    m += 1
                # does the iterated expression end with `.enumerate()`?
                if [u.text for u in sig[m - 4:m]] != [".", "enumerate", "(", ")"]:
                    continue
                hit = (k, pc, comma, m)
                break
        if hit is None:
            break
        k, pc, comma, m = hit
        inner = sig[k + 2:pc]
        ipat = ft.text[inner[0].s:inner[comma - 1].e]
        xpat = ft.text[inner[comma + 1].s:inner[-1].e]
        expr = ft.text[sig[pc + 2].s:sig[m - 5].e]
        bclose = match_close(sig, m)
        cnt = f"d14_k{n}"
        # close the wrapping block after the loop body
        ft.edits.append((sig[bclose].e, 0, " }"))
        ft.edits.append((sig[m].e, 0, f" let {ipat} = {cnt}; {cnt} = {cnt} + 1;"))
        ft.edits.append((sig[k].s, sig[m - 1].e - sig[k].s, f"{{ let mut {cnt}: usize = 0; for {xpat} in {expr}"))
        ft.apply_edits()
        ft.relex()
        n += 1
    if n:
        ads.append({"rule": "D14", "what": f"{n} `for (i, x) in e.enumerate()` loop(s) desugared to an explicit usize counter"})


def rewrite_mut_self(ft, ads):
    """D16: `fn f(mut self, ..) { BODY }` (unsupported by Verus) becomes `fn f(self, ..) { let mut d16_self = self; BODY' }`
    where BODY' is BODY with every `self` token replaced by `d16_self` — a local rebinding, same moves, same mutations."""
    fnk, name, po, pc, body = fn_parts(ft)
    sig = ft.sig
    if body is None:
        return
    # other `mut NAME: T` parameters: drop `mut`, shadow with `let mut NAME = NAME;`
    muts = []
    depth = 0
    for k in range(po + 1, pc):
        if sig[k].text in OPEN:
            depth += 1
        elif sig[k].text in CLOSE:
            depth -= 1
        elif depth == 0 and sig[k].text == "mut" and sig[k + 1].kind == "ident" and sig[k + 1].text != "self" and sig[k + 2].text == ":" \
                and (sig[k - 1].text in ("(", ",")):
            muts.append(k)
    if muts:
        for k in muts:
            ft.edits.append((sig[k].s, sig[k + 1].s - sig[k].s, ""))
        ft.edits.append((sig[body].e, 0, "".join(f" let mut {sig[k + 1].text} = {sig[k + 1].text};" for k in muts)))
        names = [sig[k + 1].text for k in muts]
        ft.apply_edits()
        ft.relex()
        ads.append({"rule": "D16", "what": f"`mut` parameter(s) {names} rebound by a shadowing `let mut`"})
        fnk, name, po, pc, body = fn_parts(ft)
        sig = ft.sig
    if not (sig[po + 1].text == "mut" and sig[po + 2].text == "self"):
        return
    bclose = match_close(sig, body)
    for k in range(body + 1, bclose):
        if sig[k].kind == "ident" and sig[k].text == "self":
            ft.edits.append((sig[k].s, 4, "d16_self"))
    ft.edits.append((sig[body].e, 0, " let mut d16_self = self;"))
    ft.edits.append((sig[po + 1].s, sig[po + 2].s - sig[po + 1].s, ""))
    ft.apply_edits()
    ft.relex()
    ads.append({"rule": "D16", "what": "`mut self` parameter rebound as a local (`let mut d16_self = self;`), body uses d16_self"})


def hoist_loop_temporaries(ft, ads):
    """D17: `for X in CALL(..).iter() { BODY }` — Verus' for-loop encoding binds the iterator in a `let`, which ends the lifetime
    of the temporary CALL(..) too early (E0716).  The temporary is bound explicitly:
        { let d17_tN = CALL(..); for X in d17_tN.iter() { BODY } }
    Rust extends the temporary's lifetime over the whole loop anyway, so behaviour is unchanged."""
    n = 0
    while True:
        sig = ft.sig
        hit = None
        for k, t in enumerate(sig):
            if not (t.kind == "ident" and t.text == "for"):
                continue
            m = k + 1
            while m < len(sig) and not (sig[m].kind == "ident" and sig[m].text == "in"):
                if sig[m].text in OPEN:
                    m = match_close(sig, m)
                m += 1
            if m >= len(sig):
                continue
            b = m + 1
            while b < len(sig) and sig[b].text != "{":
                if sig[b].text in "([":
                    b = match_close(sig, b)
                b += 1
            if b >= len(sig):
                continue
            # iterated expression tokens: m+1 .. b-1 ; look for `<E> . iter ( )` with E ending in `)`
            if b - (m + 1) >= 5 and [u.text for u in sig[b - 4:b]] == [".", "iter", "(", ")"] and sig[b - 5].text == ")" \
                    and not sig[m + 1].text.startswith("d17_"):
                hit = (k, m, b)
                break
        if hit is None:
            break
        k, m, b = hit
        e_s, e_e = sig[m + 1].s, sig[b - 5].e
        expr = ft.text[e_s:e_e]
        bclose = match_close(sig, b)
        tmp = f"d17_t{n}"
        ft.edits.append((sig[bclose].e, 0, " }"))
        ft.edits.append((e_s, e_e - e_s, tmp))
        ft.edits.append((sig[k].s, 0, f"{{ let {tmp} = {expr}; "))
        ft.apply_edits()
        ft.relex()
        n += 1
    if n:
        ads.append({"rule": "D17", "what": f"{n} loop(s) over `call(..).iter()`: the temporary is bound by an explicit let around the loop"})


def _expr_start(sig, k):
    """index of the first token of the postfix expression that ends at token k (idents, `.`, `::`, calls, indexing, `?`)"""
    j = k
    while j >= 0:
        t = sig[j]
        if t.text in (")", "]"):
            # find the matching opener
            depth = 0
            m = j
            while m >= 0:
                if sig[m].text in CLOSE:
                    depth += 1
                elif sig[m].text in OPEN:
                    depth -= 1
                    if depth == 0:
                        break
                m -= 1
            j = m - 1
            continue
        if t.kind == "ident" and t.text not in ("let", "return", "in", "if", "else", "match", "mut", "ref", "move"):
            j -= 1
            continue
        if t.text in (".", "?"):
            j -= 1
            continue
        if t.text == ":" and j > 0 and sig[j - 1].text == ":":
            j -= 2
            continue
        break
    return j + 1


def _has_control_flow(toks):
    return any(t.kind == "ident" and t.text in ("return", "break", "continue") for t in toks) or any(t.text == "?" for t in toks)


def desugar_iterator_chains(ft, ads):
    """D21: `E.into_iter().enumerate().map(|(I, X)| BODY).collect_vec()`  (itertools' collect_vec = collect::<Vec<_>>) becomes
        { let mut d21_out = Vec::new(); let mut d21_k: usize = 0; for X in E { let I = d21_k; d21_k = d21_k + 1; d21_out.push(BODY); } d21_out }
    D22: `E.iter().filter(|F| COND).cloned().collect_vec()` becomes
        { let mut d22_out = Vec::new(); for F in E.iter() { if COND { d22_out.push(F.clone()); } } d22_out }
    — the sequential, in-order, one-element-at-a-time evaluation that Iterator::map/filter/collect are documented to perform; applied only
    when the closure body contains no return/break/continue/`?` (whose meaning would differ inside a loop).  The closure may mutate
    captured variables (FnMut): the loop body performs the same mutations in the same order."""
    n21 = n22 = n24 = n27 = 0
    n23 = False
    while True:
        sig = ft.sig
        hit = None
        for k in range(len(sig) - 8):
            tx = [u.text for u in sig[k:k + 12]]
            # D21
            if tx[:9] == [".", "into_iter", "(", ")", ".", "enumerate", "(", ")", "."] and tx[9] == "map" and tx[10] == "(" and tx[11] == "|":
                mo = k + 10
                mc = match_close(sig, mo)
                if [u.text for u in sig[mc + 1:mc + 5]] != [".", "collect_vec", "(", ")"]:
                    continue
                # closure params: | ( I , X ) |
                if not (sig[mo + 2].text == "(" and sig[mo + 4].text == "," and sig[mo + 6].text == ")" and sig[mo + 7].text == "|"):
                    continue
                i_name, x_name = sig[mo + 3].text, sig[mo + 5].text
                body = sig[mo + 8:mc]
                if not body or _has_control_flow(body):
                    continue
                es = _expr_start(sig, k - 1)
                hit = ("D21", es, k, mo, mc, i_name, x_name, body)
                break
            # D22
            if tx[:6] == [".", "iter", "(", ")", ".", "filter"] and tx[6] == "(" and tx[7] == "|":
                fo = k + 6
                fc = match_close(sig, fo)
                if [u.text for u in sig[fc + 1:fc + 9]] != [".", "cloned", "(", ")", ".", "collect_vec", "(", ")"]:
                    continue
                if not (sig[fo + 2].kind == "ident" and sig[fo + 3].text == "|"):
                    continue
                f_name = sig[fo + 2].text
                cond = sig[fo + 4:fc]
                if not cond or _has_control_flow(cond):
                    continue
                es = _expr_start(sig, k - 1)
                hit = ("D22", es, k, fo, fc, f_name, cond)
                break
        if hit is None:
            # D23: `let NAME: Vec<_> = E.into_iter().filter(|P| COND).collect();`
            for k in range(len(sig) - 8):
                tx = [u.text for u in sig[k:k + 9]]
                if tx[:6] == [".", "into_iter", "(", ")", ".", "filter"] and tx[6] == "(" and tx[7] == "|":
                    fo = k + 6
                    fc = match_close(sig, fo)
                    if [u.text for u in sig[fc + 1:fc + 6]] != [".", "collect", "(", ")", ";"]:
                        continue
                    if not (sig[fo + 2].kind == "ident" and sig[fo + 3].text == "|"):
                        continue
                    es = _expr_start(sig, k - 1)
                    # must be the initialiser of `let NAME: Vec<_> =` or `let NAME =` (a non-Vec target then fails to type-check: exit 2)
                    typed = es >= 8 and [u.text for u in sig[es - 6:es]] == [":", "Vec", "<", "_", ">", "="] and sig[es - 8].text == "let"
                    untyped = es >= 3 and sig[es - 1].text == "=" and sig[es - 2].kind == "ident" and sig[es - 3].text == "let"
                    if not (typed or untyped):
                        continue
                    cond = sig[fo + 4:fc]
                    if not cond or _has_control_flow(cond):
                        continue
                    hit = ("D23", es, k, fo, fc, sig[fo + 2].text, cond)
                    break
        if hit is None:
            # D27: `E.iter().map(|T| F).collect::<Option<Vec<X>>>()?`
            for k in range(len(sig) - 8):
                tx = [u.text for u in sig[k:k + 8]]
                if tx[:6] == [".", "iter", "(", ")", ".", "map"] and tx[6] == "(" and tx[7] == "|":
                    mo = k + 6
                    mc = match_close(sig, mo)
                    tail = [u.text for u in sig[mc + 1:mc + 8]]
                    if tail[:7] != [".", "collect", ":", ":", "<", "Option", "<"]:
                        continue
                    # find the end of the turbofish, then `( ) ?`
                    q = mc + 5
                    depth = 0
                    while q < len(sig):
                        if sig[q].text == "<":
                            depth += 1
                        elif sig[q].text == ">":
                            depth -= 1
                            if depth == 0:
                                break
                        q += 1
                    if [u.text for u in sig[q + 1:q + 4]] != ["(", ")", "?"]:
                        continue
                    if not (sig[mo + 2].kind == "ident" and sig[mo + 3].text == "|"):
                        continue
                    body = sig[mo + 4:mc]
                    if not body or _has_control_flow(body):
                        continue
                    es = _expr_start(sig, k - 1)
                    hit = ("D27", es, k, mo, mc, q + 3, sig[mo + 2].text, body)
                    break
        if hit is None:
            # D24: `R.extend(E.into_iter().map(|V| BODY));` as a statement
            for k in range(len(sig) - 8):
                tx = [u.text for u in sig[k:k + 3]]
                if tx == [".", "extend", "("]:
                    eo = k + 2
                    ec = match_close(sig, eo)
                    if sig[ec + 1].text != ";":
                        continue
                    inner = sig[eo + 1:ec]
                    # inner must end with `. map ( | V | BODY )` preceded by `. into_iter ( )`
                    mi = None
                    for q in range(len(inner) - 6):
                        if [u.text for u in inner[q:q + 7]] == [".", "into_iter", "(", ")", ".", "map", "("]:
                            mi = q
                    if mi is None:
                        continue
                    mo = eo + 1 + mi + 6
                    mc = match_close(sig, mo)
                    if mc != ec - 1:
                        continue
                    if not (sig[mo + 1].text == "|" and sig[mo + 2].kind == "ident" and sig[mo + 3].text == "|"):
                        continue
                    body = sig[mo + 4:mc]
                    if not body or _has_control_flow(body):
                        continue
                    rs = _expr_start(sig, k - 1)
                    # the receiver must start a statement
                    if sig[rs - 1].text not in (";", "{", "}"):
                        continue
                    hit = ("D24", rs, k, eo, ec, mi, mo, mc, sig[mo + 2].text, body)
                    break
        if hit is None:
            break
        if hit[0] == "D27":
            _, es, k, mo, mc, qend, t_name, body = hit
            recv = ft.text[sig[es].s:sig[k - 1].e]
            btxt = ft.text[body[0].s:body[-1].e]
            tag = f"d27_{n27}"
            rep = f"{{ let mut {tag}_out = Vec::new(); for {t_name} in {recv}.iter() {{ {tag}_out.push(({btxt})?); }} {tag}_out }}"
            ft.edits.append((sig[es].s, sig[qend].e - sig[es].s, rep))
            n27 += 1
        elif hit[0] == "D24":
            _, rs, k, eo, ec, mi, mo, mc, v_name, body = hit
            recv = ft.text[sig[rs].s:sig[k - 1].e]
            src = ft.text[sig[eo + 1].s:sig[eo + 1 + mi - 1].e]
            btxt = ft.text[body[0].s:body[-1].e]
            rep = f"for {v_name} in {src} {{ {recv}.insert({btxt}); }}"
            ft.edits.append((sig[rs].s, sig[ec + 1].e - sig[rs].s, rep))
            n24 += 1
        elif hit[0] == "D23":
            _, es, k, fo, fc, f_name, cond = hit
            recv = ft.text[sig[es].s:sig[k - 1].e]
            ctxt = ft.text[cond[0].s:cond[-1].e]
            tag = f"d23_{n22}"
            rep = (f"{{ let mut {tag}_out = Vec::new(); for {tag}_x in {recv} "
                   f"{{ let {tag}_keep = {{ let {f_name} = &{tag}_x; {ctxt} }}; if {tag}_keep {{ {tag}_out.push({tag}_x); }} }} {tag}_out }}")
            ft.edits.append((sig[es].s, sig[fc + 4].e - sig[es].s, rep))
            n22 += 1
            n23 = True
        elif hit[0] == "D21":
            _, es, k, mo, mc, i_name, x_name, body = hit
            recv = ft.text[sig[es].s:sig[k - 1].e]
            btxt = ft.text[body[0].s:body[-1].e]
            tag = f"d21_{n21}"
            rep = (f"{{ let mut {tag}_out = Vec::new(); let mut {tag}_k: usize = 0; for {x_name} in {recv} "
                   f"{{ let {i_name} = {tag}_k; {tag}_k = {tag}_k + 1; {tag}_out.push({btxt}); }} {tag}_out }}")
            ft.edits.append((sig[es].s, sig[mc + 4].e - sig[es].s, rep))
            n21 += 1
        else:
            _, es, k, fo, fc, f_name, cond = hit
            recv = ft.text[sig[es].s:sig[k - 1].e]
            ctxt = ft.text[cond[0].s:cond[-1].e]
            tag = f"d22_{n22}"
            rep = (f"{{ let mut {tag}_out = Vec::new(); for {f_name} in {recv}.iter() "
                   f"{{ if {ctxt} {{ {tag}_out.push({f_name}.clone()); }} }} {tag}_out }}")
            ft.edits.append((sig[es].s, sig[fc + 8].e - sig[es].s, rep))
            n22 += 1
        ft.apply_edits()
        ft.relex()
    if n21:
        ads.append({"rule": "D21", "what": f"{n21} `.into_iter().enumerate().map(|(i, x)| ..).collect_vec()` chain(s) desugared to an explicit loop pushing onto a Vec"})
    if n27:
        ads.append({"rule": "D27", "what": f"{n27} `e.iter().map(|t| f(t)).collect::<Option<Vec<_>>>()?` desugared to a loop pushing `f(t)?` (collect into Option stops at the first None, and `?` then returns it: the same early return)"})
    if n24:
        ads.append({"rule": "D24", "what": f"{n24} statement(s) `set.extend(e.into_iter().map(|v| f(v)));` desugared to `for v in e {{ set.insert(f(v)); }}` (Extend inserts the items in iteration order)"})
    if n23:
        ads.append({"rule": "D23", "what": "`let v: Vec<_> = E.into_iter().filter(|p| ..).collect();` desugared to an explicit loop that evaluates the condition on a reference to each element and pushes the elements that satisfy it"})
    if n22:
        ads.append({"rule": "D22", "what": f"{n22} `.iter().filter(|x| ..).cloned().collect_vec()` chain(s) desugared to an explicit loop pushing the clones of the elements that satisfy the condition"})


def desugar_vec_extend(ft, ads):
    """D28 (only with the directive `.extend push`): statements `V.extend(E);` on a Vec become `for d28_x in E { V.push(d28_x); }`, and
    `V.extend(E.into_iter().map(|x| B));` becomes `for x in E { V.push(B); }` — Vec::extend pushes the items of the iterator in order."""
    n = 0
    while True:
        sig = ft.sig
        hit = None
        for k in range(len(sig) - 3):
            if [u.text for u in sig[k:k + 3]] == [".", "extend", "("]:
                eo = k + 2
                ec = match_close(sig, eo)
                if sig[ec + 1].text != ";":
                    continue
                rs = _expr_start(sig, k - 1)
                if sig[rs - 1].text not in (";", "{", "}"):
                    continue
                inner = sig[eo + 1:ec]
                if not inner or _has_control_flow(inner):
                    continue
                hit = (rs, k, eo, ec)
                break
        if hit is None:
            break
        rs, k, eo, ec = hit
        recv = ft.text[sig[rs].s:sig[k - 1].e]
        inner = sig[eo + 1:ec]
        ec_in = ec
        if inner and inner[-1].text == ",":      # trailing comma of a multi-line call
            inner = inner[:-1]
            ec_in = ec - 1
        mi = None
        for q in range(len(inner) - 6):
            if [u.text for u in inner[q:q + 7]] == [".", "into_iter", "(", ")", ".", "map", "("]:
                mi = q
        rep = None
        if mi is not None:
            mo = eo + 1 + mi + 6
            mc = match_close(sig, mo)
            if mc == ec_in - 1 and sig[mo + 1].text == "|" and sig[mo + 2].kind == "ident" and sig[mo + 3].text == "|":
                src = ft.text[sig[eo + 1].s:sig[eo + 1 + mi - 1].e]
                btxt = ft.text[sig[mo + 4].s:sig[mc - 1].e]
                rep = f"for {sig[mo + 2].text} in {src} {{ {recv}.push({btxt}); }}"
        if rep is None:
            src = ft.text[inner[0].s:inner[-1].e]
            rep = f"for d28_x{n} in {src} {{ {recv}.push(d28_x{n}); }}"
        ft.edits.append((sig[rs].s, sig[ec + 1].e - sig[rs].s, rep))
        ft.apply_edits()
        ft.relex()
        n += 1
    if n:
        ads.append({"rule": "D28", "what": f"{n} statement(s) `vec.extend(e);` desugared to a loop pushing the items of e in order"})


def eta_expand_constructors(ft, ads):
    """D20: a datatype constructor used as a function value — `.map(Path::Variant)` — is unsupported by Verus; it is
    eta-expanded to `.map(|d20_x| Path::Variant(d20_x))` (same function)."""
    n = 0
    while True:
        sig = ft.sig
        hit = None
        for k in range(len(sig) - 3):
            if sig[k].text == "." and sig[k + 1].text in ("map", "map_err", "and_then") and sig[k + 2].text == "(":
                c = match_close(sig, k + 2)
                inner = sig[k + 3:c]
                if not inner:
                    continue
                texts = [u.text for u in inner]
                # a pure path: ident (:: ident)*
                ok = all((u.kind == "ident") if i % 3 == 0 else (u.text == ":") for i, u in enumerate(inner)) and len(inner) % 3 == 1
                if ok and inner[-1].text[:1].isupper() and len(inner) >= 4:
                    hit = (inner[0].s, inner[-1].e)
                    break
        if hit is None:
            break
        path = ft.text[hit[0]:hit[1]]
        ft.edits.append((hit[0], hit[1] - hit[0], f"|d20_x| {path}(d20_x)"))
        ft.apply_edits()
        ft.relex()
        n += 1
    if n:
        ads.append({"rule": "D20", "what": f"{n} constructor(s) used as function value eta-expanded to a closure"})


def adapt_function(text, where, subs, report):
    m0 = re.match(r"\s*pub\s*\(\s*(super|crate|in [^)]*)\s*\)", text)
    if m0:
        text = text[:m0.start()] + "pub" + text[m0.end():]
        report["adaptations"].append({"rule": "D18", "what": "restricted visibility `pub(..)` widened to `pub` in the single-file unit"})
    ft = FnText(text, where)
    ft.relex()
    ads = report["adaptations"]
    normalise_bool_assign(ft, ads)
    split_or_guard_arms(ft, ads)
    if any(sd["kw"] == "extend" and sd["args"].strip() == "push" for sd in subs):
        desugar_vec_extend(ft, ads)
    desugar_iterator_chains(ft, ads)
    desugar_enumerate_loops(ft, ads)
    hoist_loop_temporaries(ft, ads)
    eta_expand_constructors(ft, ads)
    if 'fn __fragment' not in text:
        rewrite_mut_self(ft, ads)
    # nested fn items with their own contracts (D3 applied recursively)
    for sd in subs:
        if sd["kw"] != "nested":
            continue
        nm = sd["args"].strip()
        sig = ft.sig
        # skip the outer fn's own `fn` keyword (first one)
        outer = next(k for k, t in enumerate(sig) if t.kind == "ident" and t.text == "fn")
        hits = [k for k, t in enumerate(sig) if k > outer and t.kind == "ident" and t.text == "fn" and sig[k + 1].text == nm]
        if len(hits) != 1:
            raise ExtractError("lost-anchor", f"{where}: nested fn `{nm}` found {len(hits)} times")
        k = hits[0]
        j = k + 2
        while sig[j].text != "{":
            if sig[j].text in "([":
                j = match_close(sig, j)
            j += 1
        e = match_close(sig, j)
        inner_text = ft.text[sig[k].s:sig[e].e]
        inner_new = adapt_function(inner_text, where + " :: fn " + nm, sd.get("subs", []), report)
        ft.edits.append((sig[k].s, sig[e].e - sig[k].s, inner_new))
        ft.apply_edits()
        ft.relex()
    extra_items = ""
    if any(sd["kw"] == "fresh_search" for sd in subs):
        extra_items = fresh_search_stub(ft, ads)

    # D8: APIT -> named type parameter
    for sd in subs:
        if sd["kw"] != "apit":
            continue
        names = sd["args"].split()
        fnk, name, po, pc, body = fn_parts(ft)
        sig = ft.sig
        found = []
        k = po + 1
        while k < pc:
            if sig[k].kind == "ident" and sig[k].text == "impl":
                # bound runs to `,` or `)` at depth 0 (angle brackets tracked)
                m = k + 1
                depth = 0
                while m < pc:
                    t = sig[m]
                    if t.text in OPEN:
                        m = match_close(sig, m) + 1
                        continue
                    if t.text == "<":
                        depth += 1
                    elif t.text == ">" and sig[m - 1].text != "-":
                        depth -= 1
                    elif t.text == "," and depth == 0:
                        break
                    m += 1
                found.append((k, m))
                k = m
            else:
                k += 1
        if len(found) != len(names):
            raise ExtractError("lost-anchor", f"{where}: .apit expects {len(names)} impl-Trait params, found {len(found)}")
        gens = []
        for (k, m), nm in zip(found, names):
            bound = ft.text[sig[k + 1].s:sig[m - 1].e]
            gens.append(f"{nm}: {bound}")
            ft.edits.append((sig[k].s, sig[m - 1].e - sig[k].s, nm))
        if sig[name + 1].text == "<":
            ft.edits.append((sig[name + 1].e, 0, ", ".join(gens) + ", "))
        else:
            ft.edits.append((sig[name].e, 0, "<" + ", ".join(gens) + ">"))
        ft.apply_edits()
        ft.relex()
        ads.append({"rule": "D8", "what": f"impl-Trait parameter(s) named {names}"})

    # D6: format!("lit{a}lit") -> fmt_concat
    for sd in subs:
        if sd["kw"] != "fmt":
            continue
        sig = ft.sig
        n = 0
        for k, t in enumerate(sig):
            if t.kind == "ident" and t.text == "format" and sig[k + 1].text == "!" and sig[k + 2].text == "(":
                close = match_close(sig, k + 2)
                inner = sig[k + 3:close]
                if not inner or inner[0].kind != "string" or not inner[0].text.startswith('"'):
                    raise ExtractError("unsupported", f"{where}: format! without a plain literal")
                lit = inner[0].text[1:-1]
                # positional args
                args = []
                cur = []
                depth = 0
                for u in inner[1:]:
                    if u.text == "," and depth == 0:
                        if cur:
                            args.append(ft.text[cur[0].s:cur[-1].e])
                        cur = []
                        continue
                    if u.text in OPEN:
                        depth += 1
                    elif u.text in CLOSE:
                        depth -= 1
                    cur.append(u)
                if cur:
                    args.append(ft.text[cur[0].s:cur[-1].e])
                pieces = []
                pos = 0
                ai = 0
                for m in re.finditer(r"\{([A-Za-z_][A-Za-z0-9_]*)?\}", lit):
                    if m.start() > pos:
                        pieces.append(("lit", lit[pos:m.start()]))
                    if m.group(1):
                        pieces.append(("arg", m.group(1)))
                    else:
                        if ai >= len(args):
                            raise ExtractError("unsupported", f"{where}: format! placeholder without argument")
                        pieces.append(("arg", args[ai]))
                        ai += 1
                    pos = m.end()
                if pos < len(lit):
                    pieces.append(("lit", lit[pos:]))
                if "{" in re.sub(r"\{([A-Za-z_][A-Za-z0-9_]*)?\}", "", lit):
                    raise ExtractError("unsupported", f"{where}: format! with format specs")
                parts = []
                for kind, v in pieces:
                    if kind == "lit":
                        parts.append(f'"{v}".to_string()')
                    else:
                        parts.append(f"({v}).to_string()")
                rep = "fmt_concat(vec![" + ", ".join(parts) + "])"
                ft.edits.append((t.s, sig[close].e - t.s, rep))
                n += 1
        if n == 0:
            raise ExtractError("lost-anchor", f"{where}: .fmt but no format! found")
        ft.apply_edits()
        ft.relex()
        ads.append({"rule": "D6", "what": f"{n} format! call(s) rewritten to fmt_concat"})

    # D19: `.assoc Name=Type ...` — a trait-impl method is verified as an inherent method (Verus loses the iterator
    # specifications inside trait-impl bodies); `Self::Name` is replaced by the type the impl block binds it to.
    for sd in subs:
        if sd["kw"] != "assoc":
            continue
        pairs = dict(p.split("=", 1) for p in sd["args"].split())
        sig = ft.sig
        nrep = 0
        for k in range(len(sig) - 3):
            if sig[k].text == "Self" and sig[k + 1].text == ":" and sig[k + 2].text == ":" and sig[k + 3].text in pairs:
                ft.edits.append((sig[k].s, sig[k + 3].e - sig[k].s, pairs[sig[k + 3].text]))
                nrep += 1
        ft.apply_edits()
        ft.relex()
        ads.append({"rule": "D19", "what": f"trait-impl method placed in an inherent impl; {nrep} occurrence(s) of Self::<assoc type> replaced by {pairs}"})

    # D15: explicit type on a `let` whose type rustc can only infer from later (executable) uses, which the
    # spliced invariants precede:  `.lettype NAME as TYPE`   `let mut NAME = e;` -> `let mut NAME: TYPE = e;`
    for sd in subs:
        if sd["kw"] != "lettype":
            continue
        m = re.match(r"\s*([A-Za-z_][A-Za-z0-9_]*)\s+as\s+(.+)$", sd["args"])
        if not m:
            raise ExtractError("template", f"{where}: bad .lettype directive")
        nm, ty = m.group(1), m.group(2).strip()
        sig = ft.sig
        hits = []
        for k, t in enumerate(sig):
            if t.kind == "ident" and t.text == "let":
                j = k + 1
                if sig[j].text == "mut":
                    j += 1
                if sig[j].text == nm and sig[j + 1].text == "=":
                    hits.append(j)
        if len(hits) != 1:
            raise ExtractError("lost-anchor", f"{where}: .lettype `{nm}` matches {len(hits)} let statements")
        ft.edits.append((sig[hits[0]].e, 0, f": {ty}"))
        ft.apply_edits()
        ft.relex()
        ads.append({"rule": "D15", "what": f"type annotation `{nm}: {ty}` added to a let (no change of behaviour)"})

    # closures (D3)
    for sd in subs:
        if sd["kw"] != "closure":
            continue
        m = re.match(r'\s*"((?:[^"\\]|\\.)*)"\s+as\s+"((?:[^"\\]|\\.)*)"\s*$', sd["args"])
        if not m:
            raise ExtractError("template", f"{where}: bad .closure directive")
        prefix, header = m.group(1), m.group(2)
        want = norm(prefix).split(" ")
        sig = ft.sig
        hits = [k for k in range(len(sig)) if [x.text for x in sig[k:k + len(want)]] == want]
        if len(hits) != 1:
            raise ExtractError("lost-anchor", f"{where}: closure anchor `{prefix}` matches {len(hits)} times")
        k = hits[0]
        # optional `move`
        if sig[k].text == "move":
            bar1 = k + 1
        else:
            bar1 = k
        if sig[bar1].text != "|":
            raise ExtractError("template", f"{where}: closure anchor must start at `|`")
        bar2 = bar1 + 1
        while sig[bar2].text != "|":
            bar2 += 1
        # body: from bar2+1 up to the enclosing closer or a `,` at depth 0
        e = bar2 + 1
        if sig[e].text == "{":
            raise ExtractError("unsupported", f"{where}: closure already has a block body")  # handled below
        while e < len(sig):
            t = sig[e]
            if t.text in OPEN:
                e = match_close(sig, e) + 1
                continue
            if t.text in CLOSE or t.text == ",":
                break
            e += 1
        body_s, body_e = sig[bar2 + 1].s, sig[e - 1].e
        spec = sd["text"].strip()
        ft.edits.append((body_e, 0, " }"))
        ft.edits.append((sig[bar1].s, sig[bar2].e - sig[bar1].s, header + (" " + spec if spec else "") + " {"))
        ft.apply_edits()
        ft.relex()
        ads.append({"rule": "D3", "what": f"closure `{prefix}` annotated: {header}"})

    # hints (D4)
    for sd in subs:
        if sd["kw"] != "hint":
            continue
        m = re.match(r'\s*(before|after)\s+"((?:[^"\\]|\\.)*)"\s*$', sd["args"])
        if not m:
            raise ExtractError("template", f"{where}: bad .hint directive")
        side, anchor = m.group(1), m.group(2)
        want = norm(anchor).split(" ")
        sig = ft.sig
        hits = [k for k in range(len(sig)) if [x.text for x in sig[k:k + len(want)]] == want]
        if len(hits) != 1:
            raise ExtractError("lost-anchor", f"{where}: hint anchor `{anchor}` matches {len(hits)} times")
        k = hits[0]
        if side == "before":
            ft.edits.append((sig[k].s, 0, sd["text"].strip() + "\n"))
        else:
            ft.edits.append((sig[k + len(want) - 1].e, 0, "\n" + sd["text"].strip() + "\n"))
        ft.apply_edits()
        ft.relex()
        ads.append({"rule": "D4", "what": f"ghost block {side} `{anchor}`"})

    # loops (D3): ordinal among for/while/loop keywords of the body, in source order
    loops = [sd for sd in subs if sd["kw"] in ("loop", "endloop")]
    if loops:
        fnk, name, po, pc, body = fn_parts(ft)
        sig = ft.sig
        idx = []
        k = body + 1
        while k < len(sig):
            t = sig[k]
            if t.kind == "ident" and t.text in ("for", "while", "loop"):
                if t.text == "for" and sig[k + 1].text == "<":
                    k += 1
                    continue
                idx.append(k)
            k += 1
        for sd in loops:
            la = sd["args"].split()
            n = int(la[0])
            if n < 1 or n > len(idx):
                raise ExtractError("lost-anchor", f"{where}: loop {n} not found ({len(idx)} loops)")
            if sd["kw"] == "endloop":
                # D4: ghost block right after the closing brace of loop n (inside the D17 block, where the hoisted temporary is in scope)
                k = idx[n - 1] + 1
                if sig[idx[n - 1]].text == "for":
                    while not (sig[k].kind == "ident" and sig[k].text == "in"):
                        if sig[k].text in OPEN:
                            k = match_close(sig, k)
                        k += 1
                while sig[k].text != "{":
                    if sig[k].text in "([":
                        k = match_close(sig, k)
                    k += 1
                ft.edits.append((sig[match_close(sig, k)].e, 0, "\n" + sd["text"].strip() + "\n"))
                ads.append({"rule": "D4", "what": f"ghost block after loop {n}"})
                continue
            if len(la) == 3 and la[1] == "as":
                # name the ghost iterator: `for PAT in EXPR` -> `for PAT in NAME: EXPR`
                if sig[idx[n - 1]].text != "for":
                    raise ExtractError("template", f"{where}: loop {n} is not a for loop")
                m = idx[n - 1] + 1
                while not (sig[m].kind == "ident" and sig[m].text == "in"):
                    if sig[m].text in OPEN:
                        m = match_close(sig, m)
                    m += 1
                ft.edits.append((sig[m].e, 0, f" {la[2]}:"))
                ads.append({"rule": "D3", "what": f"loop {n}: ghost iterator named `{la[2]}`"})
            k = idx[n - 1] + 1
            if sig[idx[n - 1]].text == "for":
                # skip the pattern (which may contain braces) up to `in`
                while not (sig[k].kind == "ident" and sig[k].text == "in"):
                    if sig[k].text in OPEN:
                        k = match_close(sig, k)
                    k += 1
            while True:
                t = sig[k]
                if t.text in "([":
                    k = match_close(sig, k) + 1
                    continue
                if t.text == "{":
                    break
                k += 1
            ft.edits.append((sig[k].s, 0, "\n" + sd["text"].rstrip() + "\n"))
            ads.append({"rule": "D3", "what": f"loop {n} ({sig[idx[n-1]].text}) invariant spliced"})
        ft.apply_edits()
        ft.relex()

    # signature-level: ret, spec, attr, sig-only
    fnk, name, po, pc, body = fn_parts(ft)
    sig = ft.sig
    sigonly = any(sd["kw"] == "sig" for sd in subs)
    spec_text = "\n".join(sd["text"].rstrip() for sd in subs if sd["kw"] == "spec")
    ret = [sd["args"].strip() for sd in subs if sd["kw"] == "ret"]
    end_sig = body if body is not None else len(sig) - 1
    if body is None and not sigonly and spec_text:
        # trait declaration without body: splice before `;`
        pass
    # return type
    if ret:
        k = pc + 1
        if not (sig[k].text == "-" and sig[k + 1].text == ">"):
            raise ExtractError("lost-anchor", f"{where}: .ret but no return type")
        ts = k + 2
        te = ts
        while te < end_sig and not (sig[te].kind == "ident" and sig[te].text == "where"):
            if sig[te].text in OPEN:
                te = match_close(sig, te) + 1
                continue
            te += 1
        ty = ft.text[sig[ts].s:sig[te - 1].e]
        ft.edits.append((sig[ts].s, sig[te - 1].e - sig[ts].s, f"({ret[0]}: {ty})"))
        ads.append({"rule": "D3", "what": f"return value named `{ret[0]}`"})
    assumed = any(sd["kw"] == "sig" and sd["args"].strip() == "assumed" for sd in subs)
    if sigonly and assumed:
        # the real signature with an ASSUMED contract: body outside Verus' subset, replaced by an external_body stub
        if body is None:
            raise ExtractError("template", f"{where}: .sig assumed on a declaration")
        bclose = match_close(sig, body)
        ft.edits.append((sig[body].s, sig[bclose].e - sig[body].s, (spec_text + "\n" if spec_text else "") + "{ unimplemented!() }"))
        ads.append({"rule": "D3", "what": "ASSUMED contract: body dropped (outside Verus' subset), #[verifier::external_body] stub keeps the real signature"})
    elif sigonly:
        if body is not None:
            bclose = match_close(sig, body)
            ft.edits.append((sig[body].s, sig[bclose].e - sig[body].s, (spec_text + "\n" if spec_text else "") + ";"))
            ads.append({"rule": "D3", "what": "signature only (body dropped; declaration)"})
        elif spec_text:
            ft.edits.append((sig[end_sig].s, 0, "\n" + spec_text + "\n"))
    elif spec_text:
        ft.edits.append((sig[end_sig].s, 0, "\n" + spec_text + "\n"))
        ads.append({"rule": "D3", "what": "contract spliced"})
    ft.apply_edits()
    attrs = [sd["args"].strip() for sd in subs if sd["kw"] == "attr"]
    if sigonly and assumed:
        attrs.append("#[verifier::external_body]")
    for a in attrs:
        ads.append({"rule": "D3", "what": f"attribute {a}"})
    return "".join(a + "\n" for a in attrs) + ft.text + ("\n" + extra_items if extra_items else "")



def find_anchor(sig, lo, hi, anchor, where):
    want = norm(anchor).split(" ")
    hits = [k for k in range(lo, hi) if [x.text for x in sig[k:k + len(want)]] == want]
    if len(hits) != 1:
        raise ExtractError("lost-anchor", f"{where}: fragment anchor `{anchor}` matches {len(hits)} times")
    return hits[0]


def extract_fragment(src, body, end, where, subs, rep):
    """D9: a statement range of a function body, from the statement starting with `.from` up to (not
    including) the statement starting with `.until` (or to the end of the body with `.to_end`);
    with `.drop print`, `println!(..)`/`print!(..)` calls are deleted.  Everything else is verbatim;
    loops/hints/closures directives apply as for functions."""
    sig = src.sig
    sd = {d["kw"]: d for d in subs}
    if "from" not in sd:
        raise ExtractError("template", f"{where}: //@stmts needs .from")
    unq = lambda t: t.strip()[1:-1].replace('\\"', '"') if t.strip().startswith('"') and t.strip().endswith('"') else t.strip()  # noqa: E731
    a = find_anchor(sig, body + 1, end, unq(sd["from"]["args"]), where)
    if "until" in sd:
        b = find_anchor(sig, body + 1, end, unq(sd["until"]["args"]), where)
    else:
        b = end
    if b <= a:
        raise ExtractError("lost-anchor", f"{where}: fragment anchors out of order")
    s_pos, e_pos = sig[a].s, sig[b - 1].e
    raw = src.text[s_pos:e_pos]
    rep["sha256"] = sha(raw)
    rep["lines"] = [src.line_of(s_pos), src.line_of(e_pos)]
    rep["adaptations"].append({"rule": "D9", "what": f"statement range from `{sd['from']['args'].strip()}` "
                               + (f"until `{sd['until']['args'].strip()}`" if "until" in sd else "to the end of the body")})
    txt = raw
    if "drop" in sd and ("print" in sd["drop"]["args"] or "write" in sd["drop"]["args"]):
        toks = significant(tokenize(txt))
        edits = []
        k = 0
        n = 0
        while k < len(toks):
            t = toks[k]
            names = ("println", "print", "eprintln", "eprint") + (("write", "writeln") if "write" in sd["drop"]["args"] else ())
            if t.kind == "ident" and t.text in names and k + 2 < len(toks) \
                    and toks[k + 1].text == "!" and toks[k + 2].text == "(":
                c = match_close(toks, k + 2)
                e = toks[c].e
                if c + 1 < len(toks) and toks[c + 1].text == "?":
                    c += 1
                    e = toks[c].e
                if c + 1 < len(toks) and toks[c + 1].text == ";":
                    e = toks[c + 1].e
                edits.append((t.s, e - t.s))
                n += 1
                k = c + 1
                continue
            k += 1
        for pos, dl in sorted(edits, key=lambda x: -x[0]):
            txt = txt[:pos] + txt[pos + dl:]
        rep["adaptations"].append({"rule": "D9", "what": f"{n} print!/println! call(s) dropped"})
    rest = [d for d in subs if d["kw"] in ("loop", "endloop", "hint", "closure", "fmt", "extend", "lettype")]
    wrapped = "fn __fragment() {\n" + txt + "\n}"
    wrapped = adapt_function(wrapped, where, rest, rep)
    i0 = wrapped.index("{") + 1
    i1 = wrapped.rindex("}")
    return wrapped[i0:i1]


def extract_helpers(src, header, items):
    """D10: every fn of every inherent `impl T` block with this header in the file is copied, so that code
    under contract may call helpers that did not exist when the unit was written.  A helper whose body is a
    single expression (no statements) gets the automatic contract `ensures r == (<body expression>)` — the
    function is its own specification; any other helper is copied without a contract (callers learn nothing)."""
    out = [f"// ---- helpers: all inherent methods of `{header}` in {src.rel} (D10) ----\n{header} {{\n"]
    blocks = [c for c in find_children(src, 0, len(src.sig)) if head_matches(c[1], header)]
    n = 0
    for (kwi, head, body, end) in blocks:
        if body is None:
            continue
        for (fk, fhead, fbody, fend) in find_children(src, body + 1, end):
            if not fhead.startswith("fn ") or fbody is None:
                continue
            start, attrs = item_start_pos(src, fk)
            raw = src.text[start:src.sig[fend].e]
            name = src.sig[fk + 1].text
            rep = {"file": src.rel, "item": f"{header} :: fn {name}", "adaptations": [], "sha256": sha(raw),
                   "lines": [src.line_of(start), src.line_of(src.sig[fend].e)]}
            inner = src.sig[fbody + 1:fend]
            simple = bool(inner) and not any(t.text == ";" for t in inner) and not any(t.kind == "ident" and t.text in ("let", "return", "loop", "while", "for") for t in inner)
            # return type present?
            has_ret = any(src.sig[k].text == "-" and src.sig[k + 1].text == ">" for k in range(fk, fbody))
            if simple and has_ret:
                expr = src.text[src.sig[fbody + 1].s:src.sig[fend - 1].e]
                subs = [{"kw": "ret", "args": "r", "text": ""}, {"kw": "spec", "args": "", "text": f"    ensures r == ({expr}),"}]
                rep["adaptations"].append({"rule": "D10", "what": "expression-bodied helper: automatic contract `ensures r == (body)`"})
            else:
                subs = []
                rep["adaptations"].append({"rule": "D10", "what": "helper copied without a contract"})
            out.append(adapt_function(raw, f"{src.rel} :: {header} :: fn {name}", subs, rep) + "\n")
            items.append(rep)
            n += 1
    out.append("}\n")
    return "".join(out)

# ---------------------------------------------------------------------------------------

FIELDLESS_KEEP = ["Clone", "Copy", "PartialEq", "Eq"]


def adapt_type(src, found, kind, name, report):
    kw, head, body, end = found
    sig = src.sig
    start, attrs = item_start_pos(src, kw)
    raw = src.text[start:sig[end].e]
    derives = []
    for a in attrs:
        m = re.match(r"#\[\s*derive\s*\((.*)\)\s*\]$", a, re.S)
        if m:
            derives += [d.strip().split("::")[-1] for d in m.group(1).split(",") if d.strip()]
    # strip attributes and doc comments inside the body
    toks = tokenize(raw)
    s2 = significant(toks)
    edits = []
    k = 0
    while k < len(s2):
        if s2[k].text == "#" and k + 1 < len(s2) and s2[k + 1].text == "[":
            c = match_close(s2, k + 1)
            edits.append((s2[k].s, s2[c].e - s2[k].s))
            k = c + 1
            continue
        k += 1
    for t in toks:
        if t.kind == "comment":
            edits.append((t.s, t.e - t.s))
    txt = raw
    for pos, dl in sorted(edits, key=lambda e: -e[0]):
        txt = txt[:pos] + txt[pos + dl:]
    # generics: `struct Name<D, W> {`
    gen = ""
    hk = [t.text for t in sig[kw:found[2] if found[2] is not None else end]]
    if len(hk) > 2 and hk[2] == "<":
        depth = 0
        for idx in range(2, len(hk)):
            if hk[idx] == "<":
                depth += 1
            elif hk[idx] == ">":
                depth -= 1
                if depth == 0:
                    gen = "".join(hk[2:idx + 1]).replace(",", ", ")
                    break
    tyname = name + gen
    if not txt.lstrip().startswith("pub"):
        txt = "pub " + txt.lstrip()
        report["adaptations"].append({"rule": "D18", "what": "private type made `pub` in the single-file unit (visibility only)"})
    fieldless = kind == "enum" and not any(t.text in "({" for t in s2[[i for i, t in enumerate(s2) if t.text == "{"][0] + 1:-1])
    out = []
    ads = report["adaptations"]
    if fieldless:
        keep = [d for d in FIELDLESS_KEEP if d in derives]
        manual_clone = "Clone" in keep and "Copy" not in keep
        if manual_clone:
            keep.remove("Clone")
        if "PartialEq" in keep:
            keep.append("Structural")
        out.append(f"#[derive({', '.join(keep)})]\n{txt}\n")
        if manual_clone:
            out.append(f"impl Clone for {name} {{\n    #[verifier::external_body]\n    fn clone(&self) -> (r: Self) ensures r == *self {{ unimplemented!() }}\n}}\n")
        ads.append({"rule": "D1", "what": f"derive({', '.join(derives)}) -> derive({', '.join(keep)})"})
    else:
        out.append(txt + "\n")
        gen_list = []
        if "Clone" in derives:
            gen_list.append("Clone")
            out.append(f"impl{gen} Clone for {tyname} {{\n    #[verifier::external_body]\n    fn clone(&self) -> (r: Self) ensures r == *self {{ unimplemented!() }}\n}}\n")
        if "PartialEq" in derives:
            gen_list.append("PartialEq")
            out.append(f"impl{gen} PartialEq for {tyname} {{\n    #[verifier::external_body]\n    fn eq(&self, other: &Self) -> (b: bool) ensures b == (*self == *other) {{ unimplemented!() }}\n}}\n")
        if "Eq" in derives:
            out.append(f"impl{gen} Eq for {tyname} {{}}\n")
        if "Ord" in derives:
            gen_list.append("Ord (no contract: only sort(), under its assumed permutation contract, uses it)")
            out.append(f"impl{gen} PartialOrd for {tyname} {{\n    #[verifier::external_body]\n    fn partial_cmp(&self, other: &Self) -> Option<std::cmp::Ordering> {{ unimplemented!() }}\n}}\n")
            out.append(f"impl{gen} Ord for {tyname} {{\n    #[verifier::external_body]\n    fn cmp(&self, other: &Self) -> std::cmp::Ordering {{ unimplemented!() }}\n}}\n")
        if "IntoIterator" in derives:
            ads.append({"rule": "D7", "what": "derive_more::IntoIterator dropped; delegating impls come from the unit template"})
        ads.append({"rule": "D1", "what": f"derive({', '.join(derives)}) dropped; external_body impls assumed structural: {gen_list}"})
    report["sha256"] = sha(raw)
    report["lines"] = [src.line_of(start), src.line_of(sig[end].e)]
    return "".join(out)


def parse_template(text):
    """Split template into ('text', str) and ('dir', dict) nodes."""
    nodes = []
    lines = text.split("\n")
    i = 0
    buf = []
    while i < len(lines):
        ln = lines[i]
        st = ln.strip()
        if st.startswith("//@type ") or st.startswith("//@helpers "):
            if buf:
                nodes.append(("text", "\n".join(buf) + "\n"))
                buf = []
            kw, rest = st[3:].split(" ", 1)
            nodes.append(("dir", {"kw": kw, "args": rest.strip(), "subs": [], "line": i + 1}))
            i += 1
            continue
        if st.startswith("//@fn ") or st.startswith("//@stmts "):
            if buf:
                nodes.append(("text", "\n".join(buf) + "\n"))
                buf = []
            kw0 = "fn" if st.startswith("//@fn ") else "stmts"
            d = {"kw": kw0, "args": st.split(" ", 1)[1].strip(), "subs": [], "line": i + 1}
            i += 1
            cur = None
            while i < len(lines):
                s2 = lines[i].strip()
                if s2 == "//@end":
                    i += 1
                    break
                if not s2.startswith("//@"):
                    raise ExtractError("template", f"line {i+1}: expected //@ line inside //@fn block")
                body = lines[i].split("//@", 1)[1]
                b = body.strip()
                if b.startswith(".."):
                    parts = b[2:].split(" ", 1)
                    cur = {"kw": parts[0], "args": parts[1] if len(parts) > 1 else "", "text": ""}
                    nested = [x for x in d["subs"] if x["kw"] == "nested"]
                    if not nested:
                        raise ExtractError("template", f"line {i+1}: `..` directive without a preceding .nested")
                    nested[-1].setdefault("subs", []).append(cur)
                elif b.startswith("."):
                    parts = b[1:].split(" ", 1)
                    cur = {"kw": parts[0], "args": parts[1] if len(parts) > 1 else "", "text": ""}
                    d["subs"].append(cur)
                else:
                    if cur is None:
                        raise ExtractError("template", f"line {i+1}: text before any .directive")
                    cur["text"] += body + "\n"
                i += 1
            nodes.append(("dir", d))
            continue
        buf.append(ln)
        i += 1
    if buf:
        nodes.append(("text", "\n".join(buf)))
    return nodes


def build_unit(template_path, repo_root, verif_root):
    """Returns (unit_text, report)."""
    tpl = open(template_path, encoding="utf-8").read()
    included = []

    def expand(text, depth=0):
        if depth > 5:
            raise ExtractError("template", "include depth")
        out_lines = []
        for ln in text.split("\n"):
            st = ln.strip()
            if st.startswith("//@include "):
                rel = st[len("//@include "):].strip()
                included.append(rel)
                inc = open(os.path.join(verif_root, rel), encoding="utf-8").read()
                out_lines.append(f"// ---- include {rel} ----")
                out_lines.append(expand(inc, depth + 1))
                out_lines.append(f"// ---- end include {rel} ----")
            else:
                out_lines.append(ln)
        return "\n".join(out_lines)

    tpl = expand(tpl)
    nodes = parse_template(tpl)
    out = []
    items = []
    cache = {}

    def source(rel):
        if rel not in cache:
            cache[rel] = Source(repo_root, rel)
        return cache[rel]

    for kind, node in nodes:
        if kind == "text":
            out.append(node)
            continue
        kw = node["kw"]
        parts = [p.strip() for p in re.split(r"\s+::\s+", node["args"])]
        # re-join `a :: b` paths inside headers is not needed: headers never contain `::` in this code base
        rel, path = parts[0], parts[1:]
        path = [p for p in path if p != "-"]
        src = source(rel)
        if kw == "helpers":
            out.append(extract_helpers(src, path[-1], items))
            continue
        found = locate(src, path)
        rep = {"file": rel, "item": " :: ".join(path), "adaptations": []}
        if kw == "type":
            k, name = path[-1].split()
            txt = adapt_type(src, found, k, name, rep)
            out.append(f"// ---- extracted {rel} :: {' :: '.join(path)} (lines {rep['lines'][0]}-{rep['lines'][1]}) ----\n")
            out.append(txt)
        elif kw == "stmts":
            kwi, head, body, end = found
            if body is None:
                raise ExtractError("lost-anchor", f"{rel}: {path[-1]} has no body")
            where = f"{rel} :: {' :: '.join(path)}"
            txt = extract_fragment(src, body, end, where, node["subs"], rep)
            out.append(f"// ---- fragment of {where} (lines {rep['lines'][0]}-{rep['lines'][1]}) ----\n")
            out.append(txt + "\n")
        else:
            kwi, head, body, end = found
            start, attrs = item_start_pos(src, kwi)
            raw = src.text[start:src.sig[end].e]
            rep["sha256"] = sha(raw)
            rep["lines"] = [src.line_of(start), src.line_of(src.sig[end].e)]
            where = f"{rel} :: {' :: '.join(path)}"
            # strip comments inside the function text? no: kept verbatim (comments are harmless)
            txt = adapt_function(raw, where, node["subs"], rep)
            out.append(f"// ---- extracted {where} (lines {rep['lines'][0]}-{rep['lines'][1]}) ----\n")
            out.append(txt + "\n")
        items.append(rep)
    return "".join(out), {"template": os.path.relpath(template_path, verif_root), "includes": included, "items": items}


def main():
    import argparse
    ap = argparse.ArgumentParser()
    ap.add_argument("template")
    ap.add_argument("--repo", default="/repo")
    ap.add_argument("--verif", default=os.path.dirname(os.path.dirname(os.path.abspath(__file__))))
    ap.add_argument("-o", "--out", required=True)
    ap.add_argument("--report")
    a = ap.parse_args()
    try:
        text, rep = build_unit(a.template, a.repo, a.verif)
    except ExtractError as e:
        print(f"EXTRACT-ERROR {e}", file=sys.stderr)
        sys.exit(2)
    open(a.out, "w").write(text)
    if a.report:
        json.dump(rep, open(a.report, "w"), indent=1)


if __name__ == "__main__":
    main()
