#!/bin/bash
# maintainer helper: re-record the assumption allow-list for every claimed property, regenerate the manifest,
# and say loudly if any check is not OK on the current tree (never commit in that state)
cd /verif
bad=0
for p in $(python3 -c "import sys; sys.path.insert(0,'tools'); import props; print(' '.join(sorted(props.PROPS)))"); do
  out=$(./check $p --bless | tail -1)
  echo "$out"
  case "$out" in OK*) ;; *) bad=1; echo "!!!!!!!! NOT OK: $p" ;; esac
done
python3 tools/gen_manifest.py
if [ $bad -ne 0 ]; then echo "!!!!!!!! SOME CHECK IS NOT OK ON THE CURRENT TREE — DO NOT COMMIT"; exit 1; fi
echo "ALL CHECKS OK"
