#!/bin/bash
# maintainer helper: re-record the assumption allow-list for every claimed property and regenerate the manifest
cd /verif
for p in $(python3 -c "import sys; sys.path.insert(0,'tools'); import props; print(' '.join(sorted(props.PROPS)))"); do ./check $p --bless | tail -1; done
python3 tools/gen_manifest.py
