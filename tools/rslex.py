"""A small Rust lexer: enough to find items and match delimiters while skipping
strings, chars, lifetimes and comments.  Used by extract.py (DESIGN §3.2)."""
import re

IDENT_START = re.compile(r"[A-Za-z_]")
IDENT = re.compile(r"[A-Za-z_][A-Za-z0-9_]*")
NUMBER = re.compile(r"[0-9][A-Za-z0-9_]*(\.[0-9][A-Za-z0-9_]*)?")
WS = re.compile(r"\s+")


class Tok:
    __slots__ = ("kind", "s", "e", "text")

    def __init__(self, kind, s, e, text):
        self.kind, self.s, self.e, self.text = kind, s, e, text

    def __repr__(self):
        return f"Tok({self.kind},{self.s},{self.e},{self.text!r})"


class LexError(Exception):
    pass


def tokenize(src):
    """Return significant and insignificant tokens covering src completely."""
    toks = []
    i, n = 0, len(src)
    while i < n:
        c = src[i]
        m = WS.match(src, i)
        if m:
            toks.append(Tok("ws", i, m.end(), m.group()))
            i = m.end()
            continue
        if src.startswith("//", i):
            j = src.find("\n", i)
            j = n if j < 0 else j
            toks.append(Tok("comment", i, j, src[i:j]))
            i = j
            continue
        if src.startswith("/*", i):
            depth, j = 1, i + 2
            while j < n and depth:
                if src.startswith("/*", j):
                    depth += 1
                    j += 2
                elif src.startswith("*/", j):
                    depth -= 1
                    j += 2
                else:
                    j += 1
            if depth:
                raise LexError("unterminated block comment")
            toks.append(Tok("comment", i, j, src[i:j]))
            i = j
            continue
        # raw strings / byte strings
        m = re.match(r"(b|c)?r(#*)\"", src[i:i + 40])
        if m:
            hashes = m.group(2)
            close = '"' + hashes
            j = src.find(close, i + m.end())
            if j < 0:
                raise LexError("unterminated raw string")
            j += len(close)
            toks.append(Tok("string", i, j, src[i:j]))
            i = j
            continue
        if c == '"' or (c in "bc" and i + 1 < n and src[i + 1] == '"'):
            j = i + (1 if c == '"' else 2)
            while j < n and src[j] != '"':
                j += 2 if src[j] == "\\" else 1
            if j >= n:
                raise LexError("unterminated string")
            j += 1
            toks.append(Tok("string", i, j, src[i:j]))
            i = j
            continue
        if c == "'" or (c == "b" and i + 1 < n and src[i + 1] == "'"):
            k = i + (1 if c == "'" else 2)
            # char literal or lifetime
            if k < n and src[k] == "\\":
                j = src.find("'", k + 2)
                if j < 0:
                    raise LexError("unterminated char")
                toks.append(Tok("char", i, j + 1, src[i:j + 1]))
                i = j + 1
                continue
            if k + 1 < n and src[k + 1] == "'":
                toks.append(Tok("char", i, k + 2, src[i:k + 2]))
                i = k + 2
                continue
            m = IDENT.match(src, k)
            if m and c == "'":
                toks.append(Tok("lifetime", i, m.end(), src[i:m.end()]))
                i = m.end()
                continue
            # multi-byte char literal such as 'é'
            j = src.find("'", k)
            if j < 0 or j - k > 6:
                raise LexError(f"bad quote at {i}")
            toks.append(Tok("char", i, j + 1, src[i:j + 1]))
            i = j + 1
            continue
        m = IDENT.match(src, i)
        if m:
            toks.append(Tok("ident", i, m.end(), m.group()))
            i = m.end()
            continue
        m = NUMBER.match(src, i)
        if m:
            toks.append(Tok("number", i, m.end(), m.group()))
            i = m.end()
            continue
        toks.append(Tok("punct", i, i + 1, c))
        i += 1
    return toks


OPEN = {"(": ")", "[": "]", "{": "}"}
CLOSE = {v: k for k, v in OPEN.items()}


def significant(toks):
    return [t for t in toks if t.kind not in ("ws", "comment")]


def match_close(sig, i):
    """sig[i] is an opening delimiter; return index of its matching closer."""
    assert sig[i].kind == "punct" and sig[i].text in OPEN, sig[i]
    depth = 0
    for j in range(i, len(sig)):
        t = sig[j]
        if t.kind != "punct":
            continue
        if t.text in OPEN:
            depth += 1
        elif t.text in CLOSE:
            depth -= 1
            if depth == 0:
                return j
    raise LexError("unbalanced delimiter")


def norm(text):
    """Whitespace- and comment-insensitive rendering of a piece of Rust text."""
    out = []
    for t in significant(tokenize(text)):
        out.append(t.text)
    return " ".join(out)
