#!/bin/bash
# confirm_seed.sh <seed-id> <property> <dir with seeded_patch.diff and tests/seeded_demo.rs> "<needs>"
# Confirms in a fresh scratch worktree: (1) demo passes on the unmodified tree, (2) with the patch the
# project builds, the existing suite passes (lib + examples) and the demo fails. Writes /verif/seeded/<id>/.
set -u
ID=$1; PROP=$2; SRC=$3; NEEDS=${4:-}
WT=/tmp/wt/confirm_$ID
OUT=/verif/seeded/$ID
mkdir -p $OUT
git -C /repo worktree remove --force $WT 2>/dev/null
git -C /repo worktree add -q --detach $WT HEAD || exit 3
cp -r /repo/target $WT/target 2>/dev/null
cp $SRC/seeded_patch.diff $OUT/patch.diff
cp $SRC/tests/seeded_demo.rs $OUT/seeded_demo.rs
cp $OUT/seeded_demo.rs $WT/tests/seeded_demo.rs
cd $WT
export CARGO_NET_OFFLINE=true
cargo test --offline --test seeded_demo > $OUT/demo_without_patch.log 2>&1; RC_CLEAN=$?
git apply $OUT/patch.diff || { echo "patch does not apply" > $OUT/FAILED; exit 4; }
cargo build --offline > $OUT/build_with_patch.log 2>&1; RC_BUILD=$?
cargo test --offline --lib > $OUT/lib_with_patch.log 2>&1; RC_LIB=$?
cargo test --offline --test examples > $OUT/examples_with_patch.log 2>&1; RC_EX=$?
cargo test --offline --test seeded_demo > $OUT/demo_with_patch.log 2>&1; RC_DEMO=$?
LIBSUM=$(grep "^test result" $OUT/lib_with_patch.log | head -1)
cd /
git -C /repo worktree remove --force $WT
python3 - <<PY
import json
ok = ($RC_CLEAN == 0 and $RC_BUILD == 0 and $RC_LIB == 0 and $RC_EX == 0 and $RC_DEMO != 0)
json.dump({
 "seed": "$ID", "property": "$PROP", "needs_to_manifest": """$NEEDS""",
 "confirmed": ok,
 "ran": {
  "demo on unmodified tree (cargo test --offline --test seeded_demo)": "pass" if $RC_CLEAN == 0 else "FAIL",
  "cargo build --offline with patch": "ok" if $RC_BUILD == 0 else "FAIL",
  "cargo test --offline --lib with patch": "pass" if $RC_LIB == 0 else "FAIL",
  "lib summary": """$LIBSUM""",
  "cargo test --offline --test examples with patch": "pass" if $RC_EX == 0 else "FAIL",
  "demo with patch": "fails (as required)" if $RC_DEMO != 0 else "PASSES (seed rejected)",
 },
 "detected_by": None,
}, open("$OUT/meta.json", "w"), indent=1)
print("$ID", "confirmed" if ok else "NOT CONFIRMED")
PY
