#!/usr/bin/env python3
"""Writes MANIFEST.json from tools/props.py + tools/manifest_meta.py (keeps the two in step)."""
import json, os, sys
HERE = os.path.dirname(os.path.abspath(__file__))
sys.path.insert(0, HERE)
import props, manifest_meta as mm

checks = []
for pid in sorted(props.PROPS):
    cfg = props.PROPS[pid]
    meta = dict(mm.CHECKS[pid])
    bc = cfg.get("bounded_checks", [])
    if bc:
        meta["text"] = meta["text"] + mm.BOUNDED_PREFIX + "; ".join(mm.BOUNDED[c] for c in bc) + "."
        if not cfg.get("bounded_only"):
            meta["technique"] = meta["technique"] + mm.BOUNDED_TECHNIQUE
    checks.append({
        "property_id": pid,
        "quick_cmd": f"./check {pid} --tier quick",
        "thorough_cmd": f"./check {pid} --tier thorough",
        "evidence_file": f"/verif/evidence/{pid}.json",
        "replay_cmd_template": f"./check {pid} --replay {{path}}",
        "engine": "bounded-stand-in" if cfg.get("bounded_only") else "verus-contracts",
        "level_claimed": {"category": cfg["level"], "text": meta["text"], "design_ref": meta["design_ref"]},
        "level_note": meta["note"],
        "technique": meta["technique"],
    })
na = [{"property_id": p, "reason": r} for p, r in sorted(mm.NOT_APPLICABLE.items()) if p not in props.PROPS]
man = {
    "version": 1,
    "setup_cmd": "python3 tools/selftest.py",
    "hooks": mm.HOOKS,
    "engines": [
        {"name": "verus-contracts", "path": "/verif/check", "serves_properties": sorted(p for p in props.PROPS if not props.PROPS[p].get("bounded_only")),
         "kind_free_text": "contract-based deductive verification: real functions extracted mechanically from /repo/src on every run (tools/extract.py), contracts spliced from units/*.rs, discharged by Verus/z3; Kani/CBMC for leaf functions outside Verus' subset (labelled bounded or complete-by-enumeration)"},
        {"name": "bounded-stand-in", "path": "/verif/bounded", "serves_properties": sorted(p for p in props.PROPS if props.PROPS[p].get("bounded_checks")),
         "kind_free_text": "bounded stand-in / replay harness (Rust crate with a path dependency on /repo, rebuilt on every run): here-and-there evaluator over a window of the standard domain with exact handling of pinned and atom-guarded variables, reference semantics of mini-gringo rules, brute-force stable models, independent TFF reader; drives the library API and the anthem binary; labelled bounded, never counted as proved"},
    ],
    "checks": checks,
    "not_applicable": na,
    "notes": mm.NOTES,
}
json.dump(man, open(os.path.join(os.path.dirname(HERE), "MANIFEST.json"), "w"), indent=1)
print("MANIFEST.json written:", len(checks), "checks,", len(na), "not applicable")
