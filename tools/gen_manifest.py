#!/usr/bin/env python3
"""Writes MANIFEST.json from tools/props.py + tools/manifest_meta.py (keeps the two in step)."""
import json, os, sys
HERE = os.path.dirname(os.path.abspath(__file__))
sys.path.insert(0, HERE)
import props, manifest_meta as mm

checks = []
for pid in sorted(props.PROPS):
    cfg = props.PROPS[pid]
    meta = mm.CHECKS[pid]
    checks.append({
        "property_id": pid,
        "quick_cmd": f"./check {pid} --tier quick",
        "thorough_cmd": f"./check {pid} --tier thorough",
        "evidence_file": f"/verif/evidence/{pid}.json",
        "replay_cmd_template": f"./check {pid} --replay {{path}}",
        "engine": "verus-contracts",
        "level_claimed": {"category": cfg["level"], "text": meta["text"], "design_ref": meta["design_ref"]},
        "level_note": meta["note"],
        "technique": meta["technique"],
    })
na = [{"property_id": p, "reason": r} for p, r in sorted(mm.NOT_APPLICABLE.items()) if p not in props.PROPS]
man = {
    "version": 1,
    "setup_cmd": "python3 tools/selftest.py",
    "hooks": mm.HOOKS,
    "engines": [
        {"name": "verus-contracts", "path": "/verif/check", "serves_properties": sorted(props.PROPS),
         "kind_free_text": "contract-based deductive verification: real functions extracted mechanically from /repo/src on every run (tools/extract.py), contracts spliced from units/*.rs, discharged by Verus/z3; Kani/CBMC for leaf functions outside Verus' subset (labelled bounded or complete-by-enumeration)"},
    ],
    "checks": checks,
    "not_applicable": na,
    "notes": mm.NOTES,
}
json.dump(man, open(os.path.join(os.path.dirname(HERE), "MANIFEST.json"), "w"), indent=1)
print("MANIFEST.json written:", len(checks), "checks,", len(na), "not applicable")
