#!/bin/bash
# try_seed.sh <seed-id-prefix> <property>: run one check against a scratch copy of /repo/src with the seed applied, without touching /repo
# and without disturbing a running tools/run_seeds.py (separate scratch build directories). Development aid.
set -u
S=$1; P=$2
d=$(ls -d /verif/seeded/$S-* 2>/dev/null | head -1); [ -z "$d" ] && { echo "no such seed"; exit 3; }
D=$(mktemp -d /tmp/anthem-mut-XXXX); cp -r /repo/src $D/src; cp /repo/Cargo.toml /repo/Cargo.lock $D/
(cd $D && patch -s -p1 < $d/patch.diff) || { echo "patch does not apply"; rm -rf $D; exit 4; }
VERIF_SCRATCH_TAG=-b VERIF_REPO=$D VERIF_BUILD=/verif/build/alt VERIF_EVIDENCE_DIR=/verif/build/alt-ev VERIF_REPLAY_DIR=/verif/build/alt-rp /verif/check $P 2>&1 | grep -E "^VIOLATION|^OK|^UNDECIDED|^FAILING|^FAILED" | cut -c1-260 | head -${3:-3}
rm -rf $D
