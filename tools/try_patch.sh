#!/bin/bash
# try_patch.sh <patch.diff> <prop> [tier]: run a check against a scratch copy of /repo/src with the patch applied
# (development aid; the registered procedure for seeded changes is: git -C /repo apply; ./check; git -C /repo checkout -- .)
set -u
P=$(readlink -f $1); PROP=$2; TIER=${3:-quick}
D=$(mktemp -d /tmp/anthem-mut-XXXX)
cp -r /repo/src $D/src; cp /repo/Cargo.toml /repo/Cargo.lock $D/ 2>/dev/null
(cd $D && patch -s -p1 < $P) || { echo "patch failed"; rm -rf $D; exit 3; }
VERIF_REPO=$D /verif/check $PROP --tier $TIER; RC=$?
rm -rf $D
exit $RC
