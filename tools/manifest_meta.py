HOOKS = {
    "guard": "cfg(kani)",
    "enable": "no source hooks in /repo: Verus checks read /repo/src text at check time; Kani harness modules from /verif/kani are appended under #[cfg(kani)] to a scratch copy of the working tree",
    "baseline_off_cmd": "cd /repo && cargo test --workspace --no-fail-fast --offline",
    "source_commits": [],
    "add_only": True,
}
NOTES = ("Exit codes of ./check: 0 all obligations discharged; 1 VIOLATION (an obligation that is discharged on the unchanged tree failed; "
         "Verus gives no counterexamples, so lines end with no-failing-input-found unless a falsifier replayed an input); "
         "2 UNDECIDED (lost anchor, construct outside Verus' subset, timeout/rlimit) — never an alarm. See DESIGN.md.")
CHECKS = {
    "C05": {
        "text": "Unbounded deductive proof (Verus): the real gamma/here/there/prepend_predicate/apply bodies, extracted from the working tree on every run, "
                "are proved equal to a spec mirror, and the mirror is proved to reduce HT satisfaction (H subset of T, any domain element, any assignment, "
                "all connectives, all three sorts) to classical satisfaction in the h/t-coupled interpretation; prefix injectivity proved.",
        "design_ref": "DESIGN.md §5 C05",
        "note": "Trusted: Verus/z3; String extensionality; Box::from, String::insert_str specs; derived Clone/PartialEq structural; sem.rs as the definition of HT/classical satisfaction. Gamma for Theory (iterator map/collect) not under contract.",
        "technique": "contract-based deductive verification (Verus) of mechanically extracted real code",
    },
    "C19": {
        "text": "Unbounded deductive proof (Verus) of the eq-break half: the real break_equivalences_formula (with the real unbox/rebox/quantify) returns spec_break(F), "
                "and spec_break(F) is satisfied by exactly the interpretations/assignments satisfying F, classically and in here-and-there. The decomposition half "
                "(sequential vs independent) and the simplify half (= C07) are not yet under contract.",
        "design_ref": "DESIGN.md §5 C19",
        "note": "Trusted: Verus/z3; prelude axioms (String/Vec extensionality, Box::from); sem.rs. decompose_sequential/independent (enumerate + captured mutable state) not under contract; flag plumbing in the task decompose functions not under contract.",
        "technique": "contract-based deductive verification (Verus) of mechanically extracted real code",
    },
    "C10": {
        "text": "Verus proves two fragments of the real code for all inputs: the SZS word match of FromStr for Status (Theorem iff the word is exactly `Theorem`; unknown words are errors) and the "
                "aggregation loop of the Verify arm (success iff every result, in any order and number, is a report with status Theorem). The schedule/fault half (exactly-once hand-off, byte identity, "
                "thread pool, process faults) cannot be decided by contracts here and is listed as assumed.",
        "design_ref": "DESIGN.md §5 C10",
        "note": "Fragment extraction (rule D9) with print statements dropped; prove_all/report.status stand-ins with assumed contracts; regex capture not covered; D10 helper auto-contracts; D11 bool-assign normalisation.",
        "technique": "contract-based deductive verification (Verus) of statement fragments extracted from the real code",
    },
    "C20": {
        "text": "Verus proves the five role accessors (left, right, program, user_guide, proof_outline) equal the bucket elements the property names, for buckets of any length, and the swap lemma. "
                "Files::sort and Files::specification are outside the verifier's subset and are not decided.",
        "design_ref": "DESIGN.md §5 C20",
        "note": "PathBuf opaque; sort (WalkDir/filesystem) and specification (or_else) not under contract — the argument-order half of C20 is not covered.",
        "technique": "contract-based deductive verification (Verus) of mechanically extracted real code",
    },
    "C07": {
        "text": "Verus proves the semantic contract (HT-equivalence in both worlds for H subset of T, classical equivalence, no new free variables) directly on the real bodies of 8 of the 10 intuitionistic rewrites, "
                "and the lifting through the real Apply::apply, composition and apply_fixpoint. The remaining two intuitionistic rewrites and the classic portfolio are not under contract, so the claim is partial.",
        "design_ref": "DESIGN.md §5 C07",
        "note": "conjoin/disjoin assumed contract; remove_orphaned_variables, join_nested_quantifiers, classic.rs, Compose::compose not verified; D11/D12 normalisations applied by the extractor.",
        "technique": "contract-based deductive verification (Verus) of mechanically extracted real code",
    },
    "C16": {
        "text": "By-product of every unit: all executable functions under contract are proved free of panics, unreachable code, failed unwraps, out-of-range indexing and overflow under their stated preconditions (Verus treats each as a proof obligation), "
                "plus an unconditional proof for the TPTP numeral printer and a call-site obligation linking a role check to the routing step. Two genuine crash defects were found this way and fixed. The parser/CLI stage is outside reach.",
        "design_ref": "DESIGN.md §5 C16, §8",
        "note": "parser stage (pest), clap, and functions not under contract are not covered; preconditions are assumed at call sites except where listed.",
        "technique": "contract-based deductive verification (Verus): panic-freedom obligations of mechanically extracted real code",
    },
    "C17": {
        "text": "Unbounded deductive proof (Verus) on the real code: the postcondition of the extracted Formula::substitute is the substitution lemma itself (truth value in every HT and classical interpretation "
                "under every assignment; free-variable equation), for all formulas, variables and sort-compatible terms, including all binder-renaming cases; term/atom level functions are proved equal to spec mirrors "
                "whose lemmas feed the formula-level proof. Attempting this proof exposed two genuine capture defects in the fresh-name search (see known_findings.json), repaired by a fix: commit.",
        "design_ref": "DESIGN.md §5 C17, §8",
        "note": "Assumed: the D13 stub for the infinite-iterator fresh-name search (contract = the conjuncts of the real predicate), slice::contains, prelude axioms (String/Vec extensionality, Box::from), indexmap shim, sem.rs.",
        "technique": "contract-based deductive verification (Verus) of mechanically extracted real code",
    },
    "C18": {
        "text": "Verus proves partial correctness of the real apply_fixpoint: the result is a fixpoint of one more pass (idempotence) and keeps the meaning of the input for meaning-preserving operations. "
                "Termination and cross-process determinism are not decided.",
        "design_ref": "DESIGN.md §5 C18, §6",
        "note": "exec_allows_no_decreases_clause on apply_fixpoint (termination not claimed); closure assumed total and state-independent.",
        "technique": "contract-based deductive verification (Verus) of mechanically extracted real code",
    },
    "C11": {
        "text": "Partial: four ensure_* checks (tightness gating with the bypass flag, placeholder sort conflicts, unsupported roles, formula representation) are proved exact on the real code. The graph algorithms (tightness, private recursion), "
                "the set-operation based checks and their call sites are outside the verifiers' reach and not decided.",
        "design_ref": "DESIGN.md §5 C11",
        "note": "is_tight is an uninterpreted function here; petgraph/HashMap code, 5 ensure_* methods with iterator adapters and the decompose glue are not verified.",
        "technique": "contract-based deductive verification (Verus) of mechanically extracted real code",
    },
    "C12": {
        "text": "Verus proves on the real transition_axioms (and everything below it down to asp::Program::predicates and Predicate::to_formula) that exactly the formulas forall X (hp(X) -> tp(X)) for the predicates occurring in either "
                "program are emitted, and that each is true whenever H is included in T. The symbol-order chain and the static preamble are written by fmt code / are static text and are not decided.",
        "design_ref": "DESIGN.md §5 C12",
        "note": "symbol_order axioms and declarations exist only inside Display for Problem (fmt): not covered; preamble truth assumed; D6 for format!(\"X{i}\").",
        "technique": "contract-based deductive verification (Verus) of mechanically extracted real code",
    },
    "C13": {
        "text": "Verus proves on the real inductive_lemma that the base and step obligations it returns imply the inductive lemma in every interpretation (induction over the integers inside the verifier), using the proved contract of "
                "Formula::substitute. Definition acceptance and lemma sequencing are not under contract, so the claim is partial.",
        "design_ref": "DESIGN.md §5 C13",
        "note": "substitute used through its C17 contract (proved in unit subst); definition(), GeneralLemma::try_from, from_specification and the sequencing loop not verified.",
        "technique": "contract-based deductive verification (Verus) of mechanically extracted real code",
    },
    "C03": {
        "text": "Partial: the gamma reduction (C05) and the completeness of the h-implies-t transition axioms over all predicates of both programs are proved on the real code; the routing of theories into axioms/conjectures per direction "
                "in StrongEquivalenceTask::decompose is outside Verus' subset and not decided.",
        "design_ref": "DESIGN.md §5 C03",
        "note": "decompose routing/flags, Gamma for Theory, tau*/mu correctness not covered.",
        "technique": "contract-based deductive verification (Verus) of mechanically extracted real code",
    },
    "C02": {
        "text": "Partial: Verus proves the routing of annotated formulas into stable/forward/backward premises and conclusions (per role, direction annotation and eq-break flag) on the real ValidatedExternalEquivalenceTask::decompose. "
                "The translation glue before it and the problem assembly after it are outside Verus' subset and are not decided, nor is the meaning-level statement of C02.",
        "design_ref": "DESIGN.md §5 C02",
        "note": "break_equivalences_annotated_formula and Assembled::decompose are stand-ins with assumed contracts; ExternalEquivalenceTask::decompose not verified; D19.",
        "technique": "contract-based deductive verification (Verus) of mechanically extracted real code",
    },
    "C08": {
        "text": "Partial: regularity predicates, p2f/p2f_int_term (with the lemma that translated regular terms denote exactly their mini-gringo value on integer assignments) and the rule-by-rule fallback structure of mu are proved on the real code; "
                "rule-level HT-equivalence of natural with tau* is not decided.",
        "design_ref": "DESIGN.md §5 C08",
        "note": "natural_rule/tau_star_rule are stand-ins inside mu; int_variables, head interval handling and natural_comparison not verified; D20 eta-expansion.",
        "technique": "contract-based deductive verification (Verus) of mechanically extracted real code",
    },
    "C09": {
        "text": "Only the uniqueness-of-formula-names clause is decided by a Verus proof on the real create_unique_formula_names (and add_theory's ordering); the declaration/typing clauses exist only as fmt output and are not covered.",
        "design_ref": "DESIGN.md §5 C09, §6",
        "note": "D6 (format! = concatenation; usize Display = decimal numeral) assumed; D14/D15/D16 normalisations; Display for Problem, rename_conflicting_symbols, add_annotated_formulas, decompose_* not verified.",
        "technique": "contract-based deductive verification (Verus) of mechanically extracted real code",
    },
    "C01": {
        "text": "Partial, deep: the val_t(Z) layer — val, the four construct_* functions and choose_fresh_variable_names — is proved on the real code against the mini-gringo term semantics for all terms, interpretations and assignments "
                "(unbounded, incl. fresh-name collisions and termination). The literal/rule layers and the stable-model step are not under contract.",
        "design_ref": "DESIGN.md §5 C01",
        "note": "division convention is an assumption of the spec (positive divisor, floor); tau_b*/rule layers not verified; stable = equilibrium from the literature.",
        "technique": "contract-based deductive verification (Verus) of mechanically extracted real code",
    },
}
NOT_APPLICABLE = {
    "C01": "not yet built (planned: Verus unit `tau`)",
    "C02": "not yet built",
    "C03": "not yet built",
    "C04": "completion.rs is outside Verus' accepted subset (| on bool, Itertools, IndexMap::entry, tuple-pattern closures) and Kani does not complete on Formula trees (DESIGN §2); no contract within reach decides it",
    "C06": "TPTP text exists only as Display code writing through core::fmt; Verus has no str byte reasoning and cannot see through format_args!; Kani exhausts memory carrying symbolic strings through fmt (DESIGN §6)",
    "C07": "not yet built",
    "C08": "not yet built",
    "C09": "not yet built",
    "C10": "not yet built",
    "C11": "not yet built",
    "C12": "not yet built",
    "C13": "not yet built",
    "C14": "parser is generated by pest_derive and runs in pest's VM; no contract can be placed on it without modelling the grammar by hand (DESIGN §6)",
    "C15": "parser is generated by pest_derive and runs in pest's VM; no contract can be placed on it without modelling the grammar by hand (DESIGN §6)",
    "C16": "not yet built",
    "C17": "not yet built",
    "C18": "not yet built",
    "C19": "not yet built",
    "C20": "not yet built",
}
