HOOKS = {
    "guard": "cfg(kani)",
    "enable": "no source hooks in /repo: Verus checks read /repo/src text at check time; Kani harness modules from /verif/kani are appended under #[cfg(kani)] to a scratch copy of the working tree",
    "baseline_off_cmd": "cd /repo && cargo test --workspace --no-fail-fast --offline",
    "source_commits": [],
    "add_only": True,
}
NOTES = ("Exit codes of ./check: 0 all obligations discharged; 1 VIOLATION (an obligation that is discharged on the unchanged tree failed; "
         "Verus gives no counterexamples, so lines end with no-failing-input-found unless a falsifier replayed an input); "
         "2 UNDECIDED (lost anchor, construct outside Verus' subset, timeout/rlimit) — never an alarm. See DESIGN.md.")
CHECKS = {
    "C05": {
        "text": "Unbounded deductive proof (Verus): the real gamma/here/there/prepend_predicate/apply bodies, extracted from the working tree on every run, "
                "are proved equal to a spec mirror, and the mirror is proved to reduce HT satisfaction (H subset of T, any domain element, any assignment, "
                "all connectives, all three sorts) to classical satisfaction in the h/t-coupled interpretation; prefix injectivity proved.",
        "design_ref": "DESIGN.md §5 C05",
        "note": "Trusted: Verus/z3; String extensionality; Box::from, String::insert_str specs; derived Clone/PartialEq structural; sem.rs as the definition of HT/classical satisfaction. Gamma for Theory (iterator map/collect) not under contract.",
        "technique": "contract-based deductive verification (Verus) of mechanically extracted real code",
    },
    "C19": {
        "text": 'Unbounded deductive proof (Verus) on the real code of two of the three flags: eq-break (break_equivalences_formula returns a family satisfied by exactly the interpretations satisfying the formula, classically and in HT) and decomposition (Problem::decompose/_independent/_sequential: the i-th emitted problem is the axioms [plus the earlier conjectures as axioms] and the i-th conjecture; for any notion of truth an interpretation refutes the original problem iff it refutes one of the emitted problems). The simplify flag is C07 for the portfolios; which portfolio is used at which stage is not under contract.',
        "design_ref": "DESIGN.md §0, §5 C19",
        "note": 'D21/D22 desugaring of the iterator chains in axioms/conjectures/decompose_*; format! = concatenation (T8); portfolio choice in the task decompose functions not verified.',
        "technique": "contract-based deductive verification (Verus) of mechanically extracted real code",
    },
    "C10": {
        "text": "Verus proves two fragments of the real code for all inputs: the SZS word match of FromStr for Status (Theorem iff the word is exactly `Theorem`; unknown words are errors) and the "
                "aggregation loop of the Verify arm (success iff every result, in any order and number, is a report with status Theorem). The schedule/fault half (exactly-once hand-off, byte identity, "
                "thread pool, process faults) cannot be decided by contracts here and is listed as assumed.",
        "design_ref": "DESIGN.md §5 C10",
        "note": "Fragment extraction (rule D9) with print statements dropped; prove_all/report.status stand-ins with assumed contracts; regex capture not covered; D10 helper auto-contracts; D11 bool-assign normalisation.",
        "technique": "contract-based deductive verification (Verus) of statement fragments extracted from the real code",
    },
    "C20": {
        "text": 'Verus proves the six role accessors (left, right, specification, program, user_guide, proof_outline) equal the bucket elements the property names, for buckets of any length, the swap lemma, and that the classification statement of Files::sort appends a file to the bucket determined by its extension text alone (lp/spec/ug/po, anything else to other) and changes nothing else. The traversal (argument order, directory order: WalkDir, file system) is not decided.',
        "design_ref": "DESIGN.md §0, §5 C20",
        "note": 'PathBuf/Path/OsStr opaque, Path::extension/OsStr::to_str uninterpreted; Option::or_else per std docs; Either shim; traversal of Files::sort not under contract.',
        "technique": "contract-based deductive verification (Verus) of mechanically extracted real code",
    },
    "C07": {
        "text": 'Verus proves the semantic contract (HT-equivalence in both worlds for H subset of T, classical equivalence, no new free variables) directly on the real bodies of all 10 intuitionistic rewrites, preserves_cl for remove_double_negation and extend_quantifier_scope, and the lifting through the real Apply::apply, composition and apply_fixpoint. Three classic rewrites (substitute_defined_variables, restrict_quantifier_domain, simplify_transitive_equality) are not under contract; a genuine defect in the last was found by reading and fixed.',
        "design_ref": "DESIGN.md §0, §5 C07",
        "note": 'conjoin/disjoin assumed contract; D11/D12/D23 normalisations; sort/dedup/append specs; Compose::compose glue and the portfolio tables not verified.',
        "technique": "contract-based deductive verification (Verus) of mechanically extracted real code",
    },
    "C16": {
        "text": "By-product of every unit: all executable functions under contract are proved free of panics, unreachable code, failed unwraps, out-of-range indexing and overflow under their stated preconditions (Verus treats each as a proof obligation), "
                "plus an unconditional proof for the TPTP numeral printer and a call-site obligation linking a role check to the routing step. Two genuine crash defects were found this way and fixed. The parser/CLI stage is outside reach.",
        "design_ref": "DESIGN.md §5 C16, §8",
        "note": "parser stage (pest), clap, and functions not under contract are not covered; preconditions are assumed at call sites except where listed.",
        "technique": "contract-based deductive verification (Verus): panic-freedom obligations of mechanically extracted real code",
    },
    "C17": {
        "text": "Unbounded deductive proof (Verus) on the real code: the postcondition of the extracted Formula::substitute is the substitution lemma itself (truth value in every HT and classical interpretation "
                "under every assignment; free-variable equation), for all formulas, variables and sort-compatible terms, including all binder-renaming cases; term/atom level functions are proved equal to spec mirrors "
                "whose lemmas feed the formula-level proof. Attempting this proof exposed two genuine capture defects in the fresh-name search (see known_findings.json), repaired by a fix: commit.",
        "design_ref": "DESIGN.md §5 C17, §8",
        "note": "Assumed: the D13 stub for the infinite-iterator fresh-name search (contract = the conjuncts of the real predicate), slice::contains, prelude axioms (String/Vec extensionality, Box::from), indexmap shim, sem.rs.",
        "technique": "contract-based deductive verification (Verus) of mechanically extracted real code",
    },
    "C18": {
        "text": "Verus proves partial correctness of the real apply_fixpoint: the result is a fixpoint of one more pass (idempotence) and keeps the meaning of the input for meaning-preserving operations. "
                "Termination and cross-process determinism are not decided.",
        "design_ref": "DESIGN.md §5 C18, §6",
        "note": "exec_allows_no_decreases_clause on apply_fixpoint (termination not claimed); closure assumed total and state-independent.",
        "technique": "contract-based deductive verification (Verus) of mechanically extracted real code",
    },
    "C11": {
        "text": 'Seven of the nine ensure_* checks are proved exact on the real code (tightness gating with the bypass flag, placeholder sort conflicts, unsupported roles, formula representation, input/output disjointness, specification assumptions free of output predicates, assumptions over input symbols only — with the real UserGuide::input_predicates/output_predicates/placeholders), and the block of ensure_* calls of decompose is proved to apply every check to the right object before anything is emitted. The graph algorithms (tightness, private recursion) and two checks that collect into an IndexSet are not decided.',
        "design_ref": "DESIGN.md §0, §5 C11",
        "note": 'is_tight is an uninterpreted function here; petgraph/HashMap code not verified; indexmap shim (intersection/difference/append); D23.',
        "technique": "contract-based deductive verification (Verus) of mechanically extracted real code",
    },
    "C12": {
        "text": "Verus proves on the real transition_axioms (and everything below it down to asp::Program::predicates and Predicate::to_formula) that exactly the formulas forall X (hp(X) -> tp(X)) for the predicates occurring in either "
                "program are emitted, and that each is true whenever H is included in T. The symbol-order chain and the static preamble are written by fmt code / are static text and are not decided.",
        "design_ref": "DESIGN.md §5 C12",
        "note": "symbol_order axioms and declarations exist only inside Display for Problem (fmt): not covered; preamble truth assumed; D6 for format!(\"X{i}\").",
        "technique": "contract-based deductive verification (Verus) of mechanically extracted real code",
    },
    "C13": {
        "text": 'Verus proves on the real inductive_lemma that the base and step obligations it returns imply the inductive lemma in every interpretation (induction over the integers inside the verifier, using the proved contract of Formula::substitute), and on the real CheckInternal::definition that an accepted definition has the definitional form — distinct quantified variables that are exactly the arguments of the defined atom, a predicate not among the taken ones, a body over taken predicates and without other free variables — together with a proof that every such definition is a conservative extension (an expansion of any interpretation of the earlier vocabulary satisfies it). The growth of the taken set along an outline and the sequencing of lemma problems are not under contract.',
        "design_ref": "DESIGN.md §0, §5 C13",
        "note": 'substitute used through its C17 contract; IndexSet::difference/from_iter/== per indexmap documentation; D19 (definition and TryFrom<GeneralTerm> for Variable verified as inherent methods); GeneralLemma::try_from, from_specification and the sequencing loop of AssembledExternalEquivalenceTask::decompose not verified.',
        "technique": "contract-based deductive verification (Verus) of mechanically extracted real code",
    },
    "C03": {
        "text": "Partial: the gamma reduction (C05) and the completeness of the h-implies-t transition axioms over all predicates of both programs are proved on the real code; the routing of theories into axioms/conjectures per direction "
                "in StrongEquivalenceTask::decompose is outside Verus' subset and not decided.",
        "design_ref": "DESIGN.md §5 C03",
        "note": "decompose routing/flags, Gamma for Theory, tau*/mu correctness not covered.",
        "technique": "contract-based deductive verification (Verus) of mechanically extracted real code",
    },
    "C02": {
        "text": "Partial: Verus proves the routing of annotated formulas into stable/forward/backward premises and conclusions (per role, direction annotation and eq-break flag) on the real ValidatedExternalEquivalenceTask::decompose. "
                "The translation glue before it and the problem assembly after it are outside Verus' subset and are not decided, nor is the meaning-level statement of C02.",
        "design_ref": "DESIGN.md §5 C02",
        "note": "break_equivalences_annotated_formula and Assembled::decompose are stand-ins with assumed contracts; ExternalEquivalenceTask::decompose not verified; D19.",
        "technique": "contract-based deductive verification (Verus) of mechanically extracted real code",
    },
    "C08": {
        "text": "Unbounded deductive proof (Verus) on the real code: whenever natural_rule accepts a rule, the sentence it returns is closed and true in <H,T> (H subset of T) exactly when every ground instance of the rule is satisfied — the contract proved for tau_star_rule, hence HT-equivalent to tau* rule by rule; natural and mu carry the same contract per rule (mu never fails). Every function of natural.rs is under contract on its real body: regularity, p2f, int_variables (exactly Lifschitz' integer variables), comparisons incl. t1 = t2..t3, literals, bodies, fresh head variables (distinct, fresh, terminating search), heads with intervals (basic and choice), constraints; integer-sorted variables are justified by lemma_iv_trivial (non-integer instances are trivially satisfied).",
        "design_ref": "DESIGN.md §0, §5 C08",
        "note": 'Assumed: asp::Rule::terms accessor contract; input-size bound for an i32 counter (small_head); tau_star_rule/choose_fresh_global_variables inside mu carry the contracts of unit tau; D14/D19/D24/D27 desugarings; internal contracts of the body/head translators are shape contracts whose meaning is given by proved lemmas.',
        "technique": "contract-based deductive verification (Verus) of mechanically extracted real code",
    },
    "C09": {
        "text": 'Two clauses are decided by Verus proofs on the real code: formula names are unique (create_unique_formula_names; add_theory ordering) and every emitted problem has exactly one conjecture, after its axioms (decompose_independent/_sequential). The declaration/typing clauses exist only as fmt output and are not covered; two genuine defects in that part are listed as open known findings (an identifier declared at two types).',
        "design_ref": "DESIGN.md §0, §5 C09",
        "note": 'D6/T8 (format! = concatenation; usize Display = decimal numeral); D14-D16, D21/D22 desugarings; Display for Problem, rename_conflicting_symbols, add_annotated_formulas not verified; KNOWN-FINDING lines are printed for the two open findings.',
        "technique": "contract-based deductive verification (Verus) of mechanically extracted real code",
    },
    "C01": {
        "text": 'Unbounded deductive proof (Verus) on the real code, program to terms: tau_star returns one sentence per rule, and every sentence tau_star_rule produces is closed and true in an HT interpretation (H subset of T) exactly when every ground instance of its rule is satisfied under the mini-gringo semantics (multi-valued intervals, partial division/modulo, comparisons, single/double negation, choice heads, constraints); each layer (val and its constructors, tau_b*, tau_body, the three rule translators) carries its own semantic contract, and all fresh-name reasoning (I/J/K/Q/R, Z-names, head variables V<n>) is proved on the real loops incl. termination and no overflow. The stable-model sentence of C01 rests on the literature.',
        "design_ref": "DESIGN.md §0, §5 C01",
        "note": 'Assumed: valtz (4-line drain/zip/map helper), the regex section of choose_fresh_global_variables (frame only), conjoin, division convention of the spec (positive divisor, floor), Display axioms, sort/to_vec specs; stable = equilibrium not re-proved. Two genuine defects in choose_fresh_global_variables found and fixed (dad0bac).',
        "technique": "contract-based deductive verification (Verus) of mechanically extracted real code",
    },
}
NOT_APPLICABLE = {
    "C01": "not yet built (planned: Verus unit `tau`)",
    "C02": "not yet built",
    "C03": "not yet built",
    "C04": "completion.rs is outside Verus' accepted subset (| on bool, Itertools, IndexMap::entry, tuple-pattern closures) and Kani does not complete on Formula trees (DESIGN §2); no contract within reach decides it",
    "C06": "TPTP text exists only as Display code writing through core::fmt; Verus has no str byte reasoning and cannot see through format_args!; Kani exhausts memory carrying symbolic strings through fmt (DESIGN §6)",
    "C07": "not yet built",
    "C08": "not yet built",
    "C09": "not yet built",
    "C10": "not yet built",
    "C11": "not yet built",
    "C12": "not yet built",
    "C13": "not yet built",
    "C14": "parser is generated by pest_derive and runs in pest's VM; no contract can be placed on it without modelling the grammar by hand (DESIGN §6)",
    "C15": "parser is generated by pest_derive and runs in pest's VM; no contract can be placed on it without modelling the grammar by hand (DESIGN §6)",
    "C16": "not yet built",
    "C17": "not yet built",
    "C18": "not yet built",
    "C19": "not yet built",
    "C20": "not yet built",
}


# what each bounded stand-in check does (crate /verif/bounded, built against /repo's working tree on every run); composed into
# level_claimed.text / technique of every property that registers it in props.PROPS[...]["bounded_checks"]
BOUNDED = {
    "trans": "`bounded trans`: the real tau*, natural and mu translators (library API) are run on ~3300 (thorough: ~30000) guarded rules; every printed sentence is evaluated in 40 (160) sampled HT interpretations against an executable reference semantics of the rule (values of terms, ground instances) and natural/mu against tau*",
    "simp": "`bounded simp`: `anthem simplify` is run for the 3 portfolios x 3 strategies on ~4200 (thorough: ~20000) formulas; each output is compared with its input in sampled HT (classical for the classic portfolio) interpretations under all assignments of the free variables over a small value set, only where both formulas are exactly evaluable; no new free variables; fixpoint output simplifies to itself; two processes print the same bytes",
    "gamma": "`bounded gamma`: `anthem translate --with gamma` on the same corpus; HT satisfaction of F against classical satisfaction of gamma(F) in the h/t-coupled interpretation; the predicates of gamma(F) are exactly the h- and t-copies",
    "strong": "`bounded strong`: `anthem verify --equivalence strong --no-proof-search --save-problems` on ~110 (thorough: ~1100) pairs of small programs under the flag combinations; the emitted TFF files are read by an independent parser/type checker and evaluated in sampled interpretations of the h-/t-copies: a problem is refuted iff h is included in t and the one program is satisfied and the other not (reference semantics), all flag combinations agree, preamble/symbol-order/transition axioms are true, every file is well-formed self-contained TFF with one conjecture",
    "external": "`bounded external`: `anthem verify --equivalence external --no-proof-search --save-problems` on ~290 (thorough: ~1500) small tight tasks without arithmetic (program vs program, program vs specification, user-guide assumptions, proof outlines) under the flag combinations; the problems are evaluated in EVERY interpretation of the declared predicates over the inner values and compared with external behaviour computed by brute force (stable models by the reference semantics): a refuting interpretation is a behavioural difference, and every behavioural difference is refuted by some problem (with an outline: by some problem of that direction, lemma problems included); flag combinations agree; files are well-formed TFF; no panic",
    "prover": "`bounded prover`: `anthem verify` with proof search and a fake `vampire` first on PATH that records its stdin and answers by schedule (Theorem, every other SZS word, no status line, crash, look-alike words such as EquivalentTheorem/TheoremX, one bad answer among good ones, no prover at all) with 1/3 (thorough: 1/3/8) instances: each saved problem is handed over exactly once and byte-identically, success is reported iff every answer was Theorem",
    "files": "`bounded files`: 27 invocations of `anthem verify` with the same files given in different argument orders, inside directories (file-name order differing from creation order), directories before and after files, .spec/.ug/.po anywhere, an unrelated file: all must emit byte-identical problems; swapping the two programs swaps the forward and backward families",
    "applic": "`bounded applic`: `anthem analyze --property tightness` on 28 programs against an independent computation of the positive dependency graph; 29 external-equivalence tasks at the border of the accepted class (non-tight, --bypass-tightness, private recursion through single/double negation, private choice head, input predicate in a head, overlapping declarations, assumptions over non-input predicates incl. same name at another arity, two sorts for a placeholder) and 19 proof outlines (each way a definition can be ill-formed), each refused one with an accepted neighbour: refused tasks must exit non-zero and emit nothing",
    "crash": "`bounded crash`: every command (translate tau-star/natural/mu/gamma/completion, simplify, analyze, verify strong/external with programs, specifications, user guides and proof outlines) on ~150 unusual inputs (numerals at and beyond the limits of the integer type, arities beyond usize, 40-ary atoms, empty files, comments only, deep nesting, non-ASCII) and 6 (thorough: 40) deterministic mutations of each: exit status 0, 1 or 2 within 10 s, never a panic or signal",
    "subst": "`bounded subst`: the real `Formula::substitute` (library API) on ~40000 (formula, variable, term) triples incl. terms that mention bound names: truth value of the result equals that of the formula with the variable assigned the term's value in sampled HT interpretations and assignments; free-variable equation; no panic on sort-compatible terms",
}
BOUNDED_PREFIX = (" BOUNDED STAND-IN (labelled bounded, never counted as proved; runs the compiled real code of the working tree on enumerated small inputs against "
                  "executable oracles; a failing input it finds is reported as VIOLATION with the input in the replay file, otherwise the verdict is the deductive one): ")
BOUNDED_TECHNIQUE = "; bounded stand-in on the compiled real code for what the contracts do not reach (crate /verif/bounded; labelled bounded)"
