"""Runner: extraction -> Verus -> ledger -> verdict -> evidence.  See DESIGN.md §3."""
import concurrent.futures
import hashlib
import json
import os
import re
import subprocess
import sys
import time

HERE = os.path.dirname(os.path.abspath(__file__))
VERIF = os.path.dirname(HERE)
sys.path.insert(0, HERE)
import extract  # noqa: E402
from rslex import tokenize, significant, match_close  # noqa: E402

BUILD = os.environ.get("VERIF_BUILD", os.path.join(VERIF, "build"))
REPO = os.environ.get("VERIF_REPO", "/repo")

# messages that mean "an obligation was refuted / not proved" (as opposed to tool trouble)
VERIFICATION_FAILURES = (
    "postcondition not satisfied",
    "precondition not satisfied",
    "assertion failed",
    "invariant not satisfied",
    "loop invariant not preserved",
    "invariant not preserved",
    "decreases not satisfied",
    "could not prove termination",
    "possible arithmetic underflow/overflow",
    "possible division by zero",
    "unreachable",
    "recommendation not met",
    "assertion failure",
    "constructed value may fail to meet its declared type invariant",
    "failed this postcondition",
    "cannot show invariant holds",
    "possible bit shift underflow/overflow",
)
TOOL_TROUBLE = ("Resource limit (rlimit) exceeded", "resource limit", "timed out", "while lifetime checking")

CANARY_TEXT = """
// ---- canaries (must FAIL: guards against a contradictory trusted base, DESIGN §3.6) ----
proof fn canary_must_fail_false() ensures false {}
proof fn canary_must_fail_string(a: String, b: String) ensures a == b {}
"""


class Undecided(Exception):
    pass


def fn_spans(text):
    """[(name, start_line, end_line)] of every fn item in a generated unit (innermost last)."""
    toks = tokenize(text)
    sig = significant(toks)
    spans = []
    line_of = lambda pos: text.count("\n", 0, pos) + 1  # noqa: E731
    for i, t in enumerate(sig):
        if t.kind == "ident" and t.text == "fn" and i + 1 < len(sig) and sig[i + 1].kind == "ident":
            j = i + 2
            body = None
            while j < len(sig):
                u = sig[j]
                if u.kind == "punct" and u.text in "([":
                    j = match_close(sig, j) + 1
                    continue
                if u.text == "{":
                    body = j
                    break
                if u.text == ";":
                    break
                j += 1
            if body is None:
                end = sig[j].e if j < len(sig) else t.e
            else:
                end = sig[match_close(sig, body)].e
            spans.append((sig[i + 1].text, line_of(t.s), line_of(end)))
    return spans


def split_error_blocks(stderr):
    blocks = []
    cur = None
    for ln in stderr.split("\n"):
        if re.match(r"^(error|warning|note)(\[[A-Z0-9]+\])?:", ln):
            if cur is not None:
                blocks.append(cur)
            cur = [ln]
        elif cur is not None:
            cur.append(ln)
    if cur is not None:
        blocks.append(cur)
    out = []
    for b in blocks:
        if b[0].startswith("error"):
            out.append("\n".join(b).rstrip())
    return out


CONFIRM_SEEDS = (7, 13)


def run_unit(unit, tier="quick", seed=0, repo=None, timeout_s=None, extra_args=(), confirm=True):
    """Extract and verify one unit; a failed obligation is confirmed under two more solver seeds before it is reported
    (a proof that passes under another seed is an unstable proof, i.e. tool trouble, not a refuted obligation)."""
    res = _run_unit_once(unit, tier, seed, repo, timeout_s, extra_args)
    if not confirm or res["status"] != "failed":
        return res
    first = {f["obligation"] for f in res["failed"]}
    still = set(first)
    reruns = []
    for k in CONFIRM_SEEDS:
        r2 = _run_unit_once(unit, tier, seed, repo, timeout_s, tuple(extra_args) + ("--smt-option", f"smt.random_seed={k}"), tag=f".seed{k}")
        reruns.append({"smt.random_seed": k, "status": r2["status"], "failed": [f["obligation"] for f in r2.get("failed", [])]})
        if r2["status"] in ("ok", "failed"):
            still &= {f["obligation"] for f in r2.get("failed", [])}
    res["confirmation_runs"] = reruns
    unstable = sorted(first - still)
    if unstable:
        res["unstable"] = unstable
        res["failed"] = [f for f in res["failed"] if f["obligation"] in still]
        if not res["failed"]:
            res["status"] = "undecided"
            res["reason"] = "unstable proof(s): " + ", ".join(unstable) + " failed under the default solver seed but verified under another (tool-level, not a refuted obligation)"
    return res


def _run_unit_once(unit, tier="quick", seed=0, repo=None, timeout_s=None, extra_args=(), tag=""):
    """Extract and verify one unit.  Returns a dict; never raises for verification failures."""
    repo = repo or REPO
    os.makedirs(BUILD, exist_ok=True)
    tpl = os.path.join(VERIF, "units", unit + ".rs")
    res = {"unit": unit, "status": "undecided", "reason": "", "functions": [], "failed": [], "items": [],
           "wall_s": 0.0, "assumption_scan": []}
    t0 = time.time()
    try:
        text, report = extract.build_unit(tpl, repo, VERIF)
    except extract.ExtractError as e:
        res["reason"] = f"extraction: {e}"
        return res
    except Exception as e:  # lexer trouble etc.
        res["reason"] = f"extraction crashed: {type(e).__name__}: {e}"
        return res
    # canaries go inside the verus! block: before the final `} // verus!`
    marker = "} // verus!"
    k = text.find(marker)
    if k < 0:
        res["reason"] = "template has no `} // verus!` marker"
        return res
    text = text[:k] + CANARY_TEXT + text[k:]
    path = os.path.join(BUILD, unit + ".rs")
    open(path, "w").write(text)
    unit_out = unit + tag
    json.dump(report, open(os.path.join(BUILD, unit + ".report.json"), "w"), indent=1)
    res["items"] = report["items"]
    res["includes"] = report.get("includes", [])
    res["unit_sha256"] = hashlib.sha256(text.encode()).hexdigest()
    res["assumption_scan"] = scan_assumptions(text)
    timeout_s = timeout_s or (600 if tier == "thorough" else 300)
    cmd = ["timeout", str(timeout_s), "verus", path, "--output-json", "--time", "--triggers-mode", "silent",
           "--multiple-errors", "4"] + list(extra_args)
    res["cmd"] = " ".join(cmd)
    env = dict(os.environ)
    p = subprocess.run(cmd, capture_output=True, text=True, cwd=BUILD, env=env)
    res["wall_s"] = round(time.time() - t0, 2)
    res["rc"] = p.returncode
    open(os.path.join(BUILD, unit_out + ".stderr"), "w").write(p.stderr)
    open(os.path.join(BUILD, unit_out + ".stdout.json"), "w").write(p.stdout)
    if p.returncode == 124:
        res["reason"] = f"verus timed out after {timeout_s}s"
        return res
    try:
        data = json.loads(p.stdout)
    except Exception:
        res["reason"] = "verus produced no JSON: " + p.stderr[-2000:]
        return res
    vr = data.get("verification-results", {})
    blocks = split_error_blocks(p.stderr)
    if "times-ms" not in data or vr.get("encountered-vir-error") or (vr.get("verified", 0) == 0 and vr.get("errors", 0) == 0):
        res["reason"] = "verus/rustc rejected the unit (unsupported construct or type error): " + "\n".join(blocks[:3])[:3000]
        return res
    funcs = []
    for m in data["times-ms"]["smt"].get("smt-run-module-times", []):
        for f in m.get("function-breakdown", []):
            name = f["function"].split("::", 1)[1] if "::" in f["function"] else f["function"]
            funcs.append({"function": name, "mode": f.get("mode:", f.get("mode", "")), "success": bool(f["success"]),
                          "time_us": f.get("time-micros", 0), "rlimit": f.get("rlimit", 0)})
    res["functions"] = funcs
    res["solver_ms"] = data["times-ms"]["smt"].get("total", 0)
    res["verus_version"] = data.get("verus", {}).get("version", "")
    # attribute error blocks to functions by line
    spans = fn_spans(text)
    per_fn = {}
    unattributed = []
    for b in blocks:
        if b.startswith("error: aborting"):
            continue
        m = re.search(r"-->\s+\S*?%s\.rs:(\d+):" % re.escape(unit), b)
        owner = None
        if m:
            ln = int(m.group(1))
            best = None
            for (nm, s, e) in spans:
                if s <= ln <= e and (best is None or s >= best[1]):
                    best = (nm, s, e)
            owner = best[0] if best else None
        if owner is None:
            unattributed.append(b)
        else:
            per_fn.setdefault(owner, []).append(b)
    failed = []
    tool = []
    canary_ok = {"canary_must_fail_false": False, "canary_must_fail_string": False}
    for f in funcs:
        short = f["function"].split("::")[-1]
        if short in canary_ok:
            canary_ok[short] = not f["success"]
            continue
        if not f["success"]:
            msgs = per_fn.get(short, [])
            if not msgs:
                # attribution by line failed (e.g. braces inside a spec clause): fall back to every verification-failure
                # message that is not attributed to a function reported as successful
                ok_names = {g["function"].split("::")[-1] for g in funcs if g["success"]}
                msgs = [b for nm, bs in per_fn.items() if nm in ok_names or nm not in {g["function"].split("::")[-1] for g in funcs} for b in bs
                        if any(v in b for v in VERIFICATION_FAILURES)] + [b for b in unattributed if any(v in b for v in VERIFICATION_FAILURES)]
            txt = "\n".join(msgs)
            if any(t.lower() in txt.lower() for t in TOOL_TROUBLE) or not msgs:
                tool.append((f["function"], txt or "no message attributed"))
            elif all(any(v in m for v in VERIFICATION_FAILURES) for m in msgs):
                failed.append({"obligation": f"{unit}::{f['function']}", "messages": msgs})
            else:
                tool.append((f["function"], txt))
    res["canaries"] = canary_ok
    # errors outside any smt-checked function (e.g. rustc/lifetime errors) are tool trouble
    stray = [b for b in unattributed if not any(v in b for v in VERIFICATION_FAILURES)]
    if not all(canary_ok.values()):
        res["reason"] = f"vacuity guard: a canary verified ({canary_ok}) — the trusted base is contradictory"
        return res
    if tool or stray:
        res["reason"] = "tool-level failure (rlimit/timeout/unsupported): " + "; ".join(f"{a}: {b[:400]}" for a, b in tool) + " ".join(s[:400] for s in stray)
        res["failed"] = failed
        return res
    res["failed"] = failed
    res["status"] = "failed" if failed else "ok"
    return res


ASSUME_PATTERNS = [r"\bassume\s*\(", r"\badmit\s*\(", r"external_body", r"assume_specification", r"#\[verifier::external",
                   r"\baxiom\s+fn\b", r"\buninterp\b", r"exec_allows_no_decreases_clause"]


def scan_assumptions(text):
    hits = []
    lines = text.split("\n")
    for i, ln in enumerate(lines, 1):
        s = ln.strip()
        if s.startswith("//"):
            continue
        for pat in ASSUME_PATTERNS:
            if re.search(pat, s):
                if s.startswith("#[") and s.endswith("]"):
                    # an attribute: name the item it is attached to (next non-attribute, non-comment line)
                    j = i
                    while j < len(lines) and (lines[j].strip().startswith("#[") or lines[j].strip().startswith("//") or not lines[j].strip()):
                        j += 1
                    nxt = lines[j].strip() if j < len(lines) else ""
                    s = s + " " + nxt
                hits.append(s[:200])
                break
    # de-duplicate, keep order
    seen, out = set(), []
    for h in hits:
        if h not in seen:
            seen.add(h)
            out.append(h)
    return out


def run_units(units, tier, seed, extra_args=()):
    with concurrent.futures.ThreadPoolExecutor(max_workers=min(8, max(1, len(units)))) as ex:
        futs = {u: ex.submit(run_unit, u, tier, seed, None, None, extra_args) for u in units}
        return {u: f.result() for u, f in futs.items()}
