#!/usr/bin/env python3
"""setup_cmd: offline sanity check of the tool chain the checks rely on; pre-builds the bounded stand-in harness (it is rebuilt
against /repo's working tree by every check anyway; doing it here keeps the first check fast)."""
import shutil, subprocess, sys, os
ok = True
for tool in ("verus", "python3"):
    if not shutil.which(tool):
        print("missing tool:", tool); ok = False
p = subprocess.run(["verus", "--version"], capture_output=True, text=True)
print(p.stdout.strip().splitlines()[1] if p.returncode == 0 and len(p.stdout.splitlines()) > 1 else p.stderr[:200])
os.makedirs(os.path.join(os.path.dirname(os.path.dirname(os.path.abspath(__file__))), "build"), exist_ok=True)
b = subprocess.run([os.path.join(os.path.dirname(os.path.dirname(os.path.abspath(__file__))), "bounded", "build.sh")], capture_output=True, text=True)
print("bounded harness:", b.stdout.strip() if b.returncode == 0 else "NOT BUILT (checks fall back to the deductive verdict): " + b.stderr[-300:])
sys.exit(0 if ok and p.returncode == 0 else 1)
