#!/usr/bin/env python3
"""setup_cmd: offline sanity check of the tool chain the checks rely on (nothing to build)."""
import shutil, subprocess, sys, os
ok = True
for tool in ("verus", "python3"):
    if not shutil.which(tool):
        print("missing tool:", tool); ok = False
p = subprocess.run(["verus", "--version"], capture_output=True, text=True)
print(p.stdout.strip().splitlines()[1] if p.returncode == 0 and len(p.stdout.splitlines()) > 1 else p.stderr[:200])
os.makedirs(os.path.join(os.path.dirname(os.path.dirname(os.path.abspath(__file__))), "build"), exist_ok=True)
sys.exit(0 if ok and p.returncode == 0 else 1)
