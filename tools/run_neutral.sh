#!/bin/bash
# run_neutral.sh [Nxx ...]: property-preserving changes of /repo (neutral/*.diff: refactorings, another injective naming scheme, a new
# valid rewrite) against the checks of the properties they touch. A check may answer OK or UNDECIDED (exit 0 or 2) but never VIOLATION.
# Runs on scratch copies (VERIF_REPO) with separate build directories; /repo is not touched. Writes neutral/RESULTS.md.
set -u
cd /verif
declare -A PROPS=(
 [N01]="C05 C03" [N02]="C09 C02 C03 C12 C13" [N03]="C02 C13 C09" [N04]="C20" [N05]="C01 C16" [N06]="C01 C16" [N07]="C07 C18" [N08]="C07 C18"
)
if [ -f neutral/props.txt ]; then while read -r k v; do [ -n "$k" ] && PROPS[$k]="$v"; done < neutral/props.txt; fi
sel="$*"; out=neutral/RESULTS.md; bad=0
[ -z "$sel" ] && echo "# Property-preserving changes vs. checks (quick tier): no check may report a violation" > $out && echo >> $out && echo "| change | verdicts |" >> $out && echo "|---|---|" >> $out
for p in neutral/N*.diff; do
  id=$(basename $p | cut -d- -f1); name=$(basename $p .diff)
  [ -n "$sel" ] && ! echo " $sel " | grep -q " $id " && continue
  D=$(mktemp -d /tmp/anthem-neutral-XXXX); cp -r /repo/src $D/src; cp /repo/Cargo.toml /repo/Cargo.lock $D/
  (cd $D && patch -s -p1 < /verif/$p) || { echo "$name: patch does not apply"; rm -rf $D; bad=1; continue; }
  line=""
  for c in ${PROPS[$id]:-}; do
    r=$(VERIF_SCRATCH_TAG=-n VERIF_REPO=$D VERIF_BUILD=/verif/build/neutral VERIF_EVIDENCE_DIR=/verif/build/neutral-ev VERIF_REPLAY_DIR=/verif/build/neutral-rp ./check $c 2>&1); rc=$?
    v=$(echo "$r" | grep -E "^(OK|UNDECIDED|VIOLATION)" | head -1 | cut -c1-160)
    case $rc in 0) w="OK";; 2) w="UNDECIDED ($(echo "$v" | cut -d' ' -f2-6))";; *) w="**ALARM** $v"; bad=1; echo "$r" | grep -E "^FAILING|^FAILED" | head -3;; esac
    line="$line $c: $w;"
  done
  rm -rf $D
  echo "$name ->$line"
  [ -z "$sel" ] && echo "| $name |$line |" >> $out
done
exit $bad
