"""Bounded stand-in / replay harness driver (crate /verif/bounded, built against /repo's working tree).

Labelled *bounded*: nothing it reports is counted as proved. Its role in a verdict:
  - a failing input it finds is a concrete input of the real code that contradicts the property -> VIOLATION with replay;
  - when the deductive check fails, it is used to look for a failing input to put into the replay file;
  - when it finds nothing, the verdict is the deductive one.
"""
import json
import os
import subprocess
import time

VERIF = os.path.dirname(os.path.dirname(os.path.abspath(__file__)))
_cache = {}


def build():
    if "bin" in _cache:
        return _cache["bin"]
    t0 = time.time()
    p = subprocess.run([os.path.join(VERIF, "bounded", "build.sh")], capture_output=True, text=True)
    out = {"ok": p.returncode == 0, "bin": p.stdout.strip().splitlines()[-1] if p.returncode == 0 and p.stdout.strip() else None,
           "build_s": round(time.time() - t0, 1), "stderr": p.stderr[-2000:]}
    _cache["bin"] = out
    return out


def run(check, tier, timeout_s=None):
    """returns {"status": ok|failing|unavailable, "stats": {...}, "failures": [...], "cmd": ...}"""
    key = (check, tier)
    if key in _cache:
        return _cache[key]
    b = build()
    if not b["ok"]:
        r = {"status": "unavailable", "reason": "harness does not build against the working tree: " + b["stderr"][-600:], "failures": [], "cmd": "bounded/build.sh"}
        _cache[key] = r
        return r
    cmd = [b["bin"], check] + (["--deep"] if tier == "thorough" else [])
    t0 = time.time()
    try:
        p = subprocess.run(cmd, capture_output=True, text=True, timeout=timeout_s or (3600 if tier == "thorough" else 600))
    except subprocess.TimeoutExpired:
        r = {"status": "unavailable", "reason": "timeout", "failures": [], "cmd": " ".join(cmd)}
        _cache[key] = r
        return r
    try:
        d = json.loads(p.stdout.strip().splitlines()[-1])
    except Exception:
        r = {"status": "unavailable", "reason": f"no result (exit {p.returncode}): {p.stderr[-600:]}", "failures": [], "cmd": " ".join(cmd)}
        _cache[key] = r
        return r
    fails = d.pop("failures", [])
    status = "ok" if p.returncode == 0 else ("failing" if p.returncode == 1 else "unavailable")
    r = {"status": status, "stats": d, "failures": fails, "cmd": " ".join(cmd), "wall_s": round(time.time() - t0, 1), "build_s": b["build_s"]}
    if status == "unavailable":
        r["reason"] = "harness self-check failed: " + "; ".join(f["detail"][:200] for f in fails if f.get("property") == "harness")[:800]
    _cache[key] = r
    return r
