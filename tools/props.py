"""Per-property configuration and the decide/report step (DESIGN §3.5-3.7)."""
import json
import os
import time

import vlib

VERIF = vlib.VERIF

TRUSTED_COMMON = [
    "Verus 0.2026.09.13 (bundled z3), rustc 1.98.1",
    "extraction rules D1-D8 of DESIGN.md §3.2 (derives dropped: derived Clone/PartialEq assumed structural)",
    "spec/prelude.rs: String extensionality (T1), Box::from (T2), String::insert_str (T3), str_of (T4) and the std/indexmap specs listed under assumptions",
    "spec/sem.rs is the intended semantics of the target language (hand-written oracle)",
]

PROPS = {
    "C05": {
        "units": ["gamma"],
        "bounded_checks": ["gamma"],
        "level": "proof",
        "property_obligations": ["theorem_c05", "lemma_gamma", "lemma_gamma_quant", "lemma_persistence", "lemma_persistence_quant",
                                 "lemma_prefix_sat", "lemma_prefix_quant", "lemma_there_classical", "lemma_there_quant",
                                 "lemma_prefix_injective", "lemma_merged_coupled", "lemma_sapply_prefix"],
        "carriers": ["Formula::gamma", "Formula::here", "Formula::there", "prepend_predicate", "Formula::apply"],
        "explanation": "Verus proves (a) the real bodies of Gamma::gamma, Here::here, There::there, prepend_predicate and "
                       "Apply::apply (extracted from the working tree on this run) return exactly spec_gamma/spec_prefix/sapply of "
                       "their argument, and (b) theorem_c05: for every formula, every HT interpretation with H ⊆ T and every "
                       "assignment, ht_sat(F) == cl_sat(spec_gamma(F)) in the coupled classical interpretation, plus injectivity "
                       "of h/t prefixing. Unbounded in formula size, domain and interpretation.",
        "assumptions": [
            "Gamma for Theory (map/collect over the formulas) is not under contract: iterator adapters over a user type are outside Verus' subset",
        ],
    },
    "C19": {
        "units": ["break", "problem"],
        "bounded_checks": ["strong", "external"],
        "level": "other",
        "property_obligations": ["lemma_break_cl", "lemma_break_ht", "lemma_break_len", "lemma_forall_distrib",
                                 "Problem::decompose", "Problem::decompose_independent", "Problem::decompose_sequential", "Problem::axioms", "Problem::conjectures",
                                 "lemma_independent_sound", "lemma_sequential_sound", "lemma_chain", "lemma_not_refuted", "lemma_single", "lemma_by_role_mem"],
        "carriers": ["break_equivalences_formula", "Formula::quantify", "Formula::unbox", "UnboxedFormula::rebox"],
        "explanation": "eq-break: Verus proves that the real break_equivalences_formula (with the real unbox/rebox/quantify) returns spec_break(F), and that the family spec_break(F) is satisfied by exactly the "
                       "interpretations and assignments that satisfy F, classically and in here-and-there (both worlds), for every formula (equivalences under any universal prefix). "
                       "Decomposition: Verus proves on the real Problem::decompose / decompose_independent / decompose_sequential (with the real axioms()/conjectures(); iterator chains desugared by rules D21/D22) that the "
                       "i-th emitted problem consists of the axioms and the i-th conjecture (independent), resp. the axioms, the earlier conjectures re-labelled as axioms, and the i-th conjecture (sequential), with "
                       "name <name>_<i> and the same interpretation; and lemma_independent_sound / lemma_sequential_sound prove, for ANY notion of truth of formulas in a fixed interpretation, that the interpretation "
                       "refutes the original problem iff it refutes one of the emitted problems — so neither flag changes what is claimed. "
                       "NOT decided: the simplify flag (= C07 for the portfolios; the choice of portfolio per stage in the decompose functions of the tasks is not under contract).",
        "assumptions": [
            "D21/D22: `.into_iter().enumerate().map(|(i, c)| ..).collect_vec()` and `.iter().filter(|f| ..).cloned().collect_vec()` are desugared to explicit loops (sequential in-order evaluation documented for Iterator::map/filter/collect); "
            "itertools::collect_vec = collect::<Vec<_>>",
            "T8/D6: format! with bare placeholders = concatenation of Display renderings",
            "which simplification portfolio is applied at which stage (task decompose functions): NOT verified",
        ],
        "not_covered": ["portfolio choice in StrongEquivalenceTask::decompose / ExternalEquivalenceTask::decompose"],
    },
    "C10": {
        "units": ["prover"],
        "bounded_checks": ["prover"],
        "level": "other",
        "property_obligations": ["verdict", "Status::status_of_word", "lemma_all_proven_step", "reveal_status_words"],
        "carriers": [],
        "explanation": "Two fragments of the real code are under contract (Verus, unbounded): (a) the `match status {..}` of "
                       "FromStr for Status: the result is Ok(Theorem) iff the captured word is exactly \"Theorem\", each of the seven SZS words maps to its "
                       "Status and any other word is an error; (b) the aggregation loop of the Verify arm of procedures::main (print statements dropped): "
                       "for ANY sequence of prover results, in any order and of any length, success is true iff every result is Ok(report) whose status is "
                       "Ok(Success(Theorem)). NOT decided: that prove_all yields exactly one result per problem under every schedule (thread pool + channel), "
                       "byte-identity of the prover's stdin with the saved file, process spawning faults, and the regex that captures the status word.",
        "assumptions": [
            "Prover::prove_all (thread pool, channel), Vampire::prove (process, pipes): stand-in `ProverStub::prove_all` with the assumed contract 'returns some finite sequence of results'; "
            "the schedule/fault half of C10 (exactly once, byte-identical, every completion order) is NOT decided — no thread support in Kani, no std::process model in either verifier",
            "regex capture `SZS status (?<status>\\w+)` feeding the match is not under contract (regex crate)",
            "fragment extraction (rule D9): statement ranges of from_str and of procedures::main are copied verbatim, print!/println! calls dropped",
        ],
        "not_covered": ["prove_all fan-in", "Vampire::prove", "STATUS regex", "--save-problems byte identity"],
    },
    "C04": {
        "units": [],
        "bounded_only": True,
        "bounded_checks": ["completion", "applic"],
        "level": "exploration",
        "min_obligations": 0,
        "explanation": "No contract reaches completion.rs (outside Verus' subset; Kani does not complete on formula trees). Bounded stand-in only, on the compiled real code: "
                       "the classical models of `translate --with completion` of the tau* theory of 42 small tight programs, over every interpretation of their predicates on the inner values, are exactly "
                       "the brute-force stable models; 21 non-completable theories are refused; completion with open input predicates is exercised end to end by `bounded external`.",
        "assumptions": ["bounded: programs of the corpus only, atoms over {0,1,2,a}; oracle = /verif/bounded aspsem.rs (reference semantics) and hteval.rs; nothing is proved"],
        "not_covered": ["programs outside the corpus", "infinite stable models"],
    },
    "C06": {
        "units": [],
        "bounded_only": True,
        "bounded_checks": ["tptp"],
        "level": "exploration",
        "min_obligations": 0,
        "explanation": "No contract reaches the TPTP formatter (Display code writing through core::fmt). Bounded stand-in only: ~7300 closed formulas are written by the real formatter as conjectures of "
                       "external-equivalence problems (no simplification, no equivalence breaking), read back by an independent TFF reader under the standard interpretation of the preamble symbols and "
                       "compared with the source formula in sampled interpretations.",
        "assumptions": ["bounded: formulas of the corpus only; oracle = /verif/bounded tff.rs (TPTP reading) and hteval.rs; the preamble axioms are read as the standard interpretation, not re-derived"],
        "not_covered": ["placeholders and renamed symbols", "formulas outside the corpus"],
    },
    "C14": {
        "units": [],
        "bounded_only": True,
        "bounded_checks": ["rt_programs"],
        "level": "exploration",
        "min_obligations": 0,
        "explanation": "No contract reaches the pest-generated parser. Bounded stand-in only: ~28000 programs, rules, body elements and terms accepted by the real parser are printed by the real formatter, "
                       "parsed again and printed again: same tree, same text.",
        "assumptions": ["bounded: texts of the corpus only; library API of the real crate"],
        "not_covered": ["texts outside the corpus"],
    },
    "C15": {
        "units": [],
        "bounded_only": True,
        "bounded_checks": ["rt_theories"],
        "level": "exploration",
        "min_obligations": 0,
        "explanation": "No contract reaches the pest-generated parser. Bounded stand-in only: ~18000 formulas (and all their subformulas), theories, specifications, user guides, proof outlines and the "
                       "printed output of the tau*, natural and mu translators are printed, parsed again and printed again: same tree, same text. Three genuine defects were found this way and repaired.",
        "assumptions": ["bounded: texts of the corpus only; library API of the real crate"],
        "not_covered": ["texts outside the corpus"],
    },
    "C20": {
        "units": ["files"],
        "bounded_checks": ["files"],
        "level": "other",
        "property_obligations": ["Files::left", "Files::right", "Files::program", "Files::user_guide", "Files::proof_outline", "Files::specification", "sort_one", "lemma_swap"],
        "carriers": [],
        "explanation": "Verus proves, for bucket vectors of any length, that the real accessors left/right/program/user_guide/proof_outline/specification return "
                       "exactly the element of the extension bucket the property names (first .lp = left/specification-when-no-.spec, second .lp = right/program, "
                       "first .spec/.ug/.po), and the swap lemma; and that the classification statement of Files::sort (extracted as a fragment: the `match path.extension()...{..}.push(path)` executed for "
                       "every directory entry that is a file) appends the file to the bucket determined by its extension text alone — exactly lp, spec, ug, po (case-sensitive), anything else or no/non-UTF-8 "
                       "extension to `other` — and changes no other bucket, so the order within a bucket is the order in which files are visited. NOT decided by contracts: the traversal of Files::sort "
                       "(argument order, directory order — WalkDir and the filesystem are outside both verifiers).",
        "assumptions": [
            "the traversal in Files::sort (paths.into_iter().map(WalkDir::new).flat_map(WalkDir::sort_by_file_name), entry?, is_file) is not under contract: argument order and directory order are NOT decided by this check",
            "std::path::PathBuf, Path, OsStr are opaque external types; Path::extension / OsStr::to_str / PathBuf::deref are uninterpreted (the extension text is whatever they return)",
            "Option::or_else per std docs; Either is the two-variant enum of the either crate",
        ],
        "not_covered": ["Files::sort traversal (WalkDir)"],
    },
    "C01": {
        "units": ["tau"],
        "bounded_checks": ["trans"],
        "level": "other",
        "property_obligations": ["tau_star", "tau_star_rule", "tau_star_fo_head_rule", "tau_star_prop_head_rule", "tau_star_constraint_rule", "tau_body", "tau_b",
                                 "tau_b_first_order_literal", "tau_b_propositional_literal", "tau_b_comparison",
                                 "val", "construct_equality_formula", "construct_total_function_formula", "construct_partial_function_formula",
                                 "construct_interval_formula", "choose_fresh_variable_names", "globals_max_arity", "globals_numbering", "lemma_globals_compose",
                                 "lemma_rule_closed", "lemma_rule_fwd", "lemma_rule_fwd_at", "lemma_rule_bwd", "lemma_imp_sem", "lemma_core_fo", "lemma_core_prop",
                                 "lemma_body", "lemma_fo_literal", "lemma_prop_literal", "lemma_cmp_literal", "lemma_taub_block",
                                 "lemma_val_total", "lemma_val_unary", "lemma_val_partial",
                                 "lemma_val_interval", "lemma_in_vals_coin", "lemma_taken_bound", "lemma_pigeonhole", "lemma_ex2", "lemma_ex3", "lemma_ex4"],
        "carriers": ["asp::Term::variables", "asp::Atom::variables", "asp::Literal::variables", "asp::Comparison::variables", "asp::AtomicFormula::variables",
                     "asp::Head::variables", "asp::Body::variables", "asp::Rule::variables", "asp::Program::variables", "asp::Head::predicate", "asp::Head::terms", "asp::Head::arity"],
        "explanation": "The first sentence of C01 is proved on the real code (Verus, unbounded) from the program down to the terms: tau_star(p) returns one sentence per rule (theory_ok), and for every rule r "
                       "the sentence tau_star_rule(r, globals) is closed and is satisfied by an HT interpretation <H,T> (H subset of T, at either world) exactly when every ground instance of r is "
                       "(rule_ok against the oracle rule_sat of spec/rule_spec.rs: basic heads, choice heads with `p v not p`, constraints; body literals with single and double negation and comparisons "
                       "per spec/taub_spec.rs; multi-valued, partial term values per in_vals of spec/tau_spec.rs). Each layer has its own contract: val (val_ok), the four val constructors, "
                       "tau_b_* and tau_b (taub_ok), tau_body (body_ok), the three rule translators and tau_star_rule (rule_ok), including ALL fresh-name reasoning on the real code: I/J/K/Q/R and Z-names by "
                       "choose_fresh_variable_names (pairwise distinct, outside the given set, termination, no overflow), the head variables V<n> by the numbering section of "
                       "choose_fresh_global_variables (u128 counting, skipping program variables: distinct, not a program variable, terminates, no overflow), shadowing of an outer Z by a body literal's own block, "
                       "adversarial program variable names. The real variables() queries of the mini-gringo syntax tree are proved to cover every variable occurrence. "
                       "NOT decided: the second sentence of C01 (stable models = equilibrium models, with extra facts): literature; and the three assumed pieces listed below.",
        "assumptions": [
            "SPEC ASSUMPTION: integer division/modulo are defined for a positive divisor only, as floor division (i = j*q + r, 0 <= r < j), following the comment in construct_partial_function_formula; "
            "the relation of this convention to clingo's truncating division is not decided here",
            "ASSUMED CONTRACT valtz (tau_star.rs, 4 lines: drain/zip/map over two vectors, outside Verus' subset): returns the conjunction of val(t_i, V_i)",
            "ASSUMED COMPOSITION choose_fresh_global_variables: its first (largest head arity) and last (numbering) sections are verified as fragments and lemma_globals_compose derives the function's contract "
            "from their postconditions; assumed: the middle section (read-only regex loop over the program's variables) assigns nothing but max_taken_var",
            "Formula::conjoin: assumed contract r == spec_conjoin(items) (Iterator::reduce)",
            "TauStar for Program (trait wrapper calling tau_star) is not under contract",
            "stable models = equilibrium models of the tau* theory (Lifschitz, Luehne, Schaub 2019): literature, not re-proved",
            "Display of asp::Variable renders its name (T10; the real impl is write!(f, \"{}\", self.0.0) in formatting/asp/mini_gringo/default.rs), Display of u128/usize is the decimal numeral (T8)",
            "slice::sort permutes (T12), slice::to_vec copies (T13), IndexSet/Vec lengths bounded by the Rust allocation limit (axiom_indexset_len, T11)",
            "D1: the derived Ord of fol::Variable is an external stub without contract (only sort() uses it)",
        ],
        "not_covered": ["valtz (assumed)", "regex section of choose_fresh_global_variables (assumed frame)", "impl TauStar for Program", "stable-model half of C01"],
    },
    "C02": {
        "units": ["ext"],
        "bounded_checks": ["external", "applic"],
        "level": "other",
        "property_obligations": ["ValidatedExternalEquivalenceTask::decompose"],
        "carriers": ["AnnotatedFormula::into_problem_formula", "WithWarnings::preface_warnings"],
        "explanation": "Only the routing step of C02 is decided: Verus proves on the real ValidatedExternalEquivalenceTask::decompose that the assembled task it hands on has exactly the premises/conclusions the "
                       "property names, as folds over the formulas in order (spec/route_spec.rs): user-guide assumptions and universal assumptions of both sides are premises of both directions; the left side's "
                       "forward-annotated assumptions and its universal/forward specs are forward premises, its universal/backward specs are backward conclusions (as themselves or, with eq-break, as the broken family); "
                       "the right side the mirror image; a directed assumption on the wrong side is dropped; outline, decomposition and direction are passed on unchanged; the unreachable!() arms are unreachable when all roles "
                       "are Assumption or Spec. NOT decided: ExternalEquivalenceTask::decompose (tau*, completion, public/private classification, private renaming, placeholder replacement — closures over iterator chains), "
                       "AssembledExternalEquivalenceTask::decompose (problem assembly) and the meaning-level statement of C02, which also needs C01 (partially proved), C04 (not applicable) and the completion theorem.",
        "assumptions": [
            "break_equivalences_annotated_formula: assumed contract `formulas == spec_broken(f)` (enumerate + format! in an iterator chain)",
            "AssembledExternalEquivalenceTask::decompose is a stand-in (external_body) that only records its input",
            "D19: the trait-impl method is verified as an inherent method (Self::Warning/Self::Error substituted)",
            "ExternalEquivalenceTask::decompose (theory_translate, control_translate, renaming of clashing private predicates, ensure_* ordering): NOT verified",
        ],
        "not_covered": ["ExternalEquivalenceTask::decompose", "AssembledExternalEquivalenceTask::decompose", "RenamePredicates", "replace_placeholders", "completion"],
    },
    "C08": {
        "units": ["nat"],
        "bounded_checks": ["trans"],
        "level": "other",
        "property_obligations": ["natural_rule", "natural", "Program::mu", "natural_head", "natural_basic_head", "natural_choice_head", "natural_head_atom", "natural_head_interval",
                                 "natural_constraint", "fresh_variables_for_head_atom", "natural_body", "natural_b_literal", "natural_b_atom", "natural_comparison", "int_variables",
                                 "contains_symbol_or_infimum_or_supremum", "is_term_regular_of_first_kind", "is_term_regular_of_second_kind", "p2f_int_term", "p2f",
                                 "lemma_nat_rule", "lemma_nat_matrix", "lemma_nat_head", "lemma_head_tuple", "lemma_head_onto", "lemma_head_conds", "lemma_nat_body", "lemma_nat_af",
                                 "lemma_nat_literal", "lemma_nat_cmp_plain", "lemma_nat_cmp_interval", "lemma_p2f_value", "lemma_p2f_int_value", "lemma_iv_trivial", "lemma_closed_from_iv",
                                 "lemma_head_names_distinct", "lemma_ucl_inst_ht", "lemma_ucl_intro_ht"],
        "carriers": ["asp::Term::variables", "asp::Atom::variables", "Formula::universal_closure"],
        "explanation": "C08 is proved on the real code (Verus, unbounded) at the level of rules: whenever natural_rule(r) returns Some(f), f is a closed sentence that is true in an HT interpretation <H,T> "
                       "(H subset of T, at either world) exactly when every ground instance of r is satisfied (rule_ok against the oracle rule_sat of C01) — the very contract proved for tau_star_rule in unit tau, "
                       "so the two translations are HT-equivalent rule by rule; natural(program) returns such a theory or None; mu never fails and returns, rule by rule, a sentence with that meaning "
                       "(the natural one where it exists, tau* otherwise). Under contract, each on the real body: the regularity predicates, p2f/p2f_int_term (a kept term has exactly one value: that of its translation), "
                       "int_variables (EXACTLY Lifschitz' integer variables: occurrence in an argument or comparison side built with an operation or interval, or on the left of t1 = t2..t3), "
                       "natural_comparison (incl. t1 = t2..t3 as t2 <= t1 <= t3), natural_b_atom/_literal/_body, fresh_variables_for_head_atom (one N<i> or N<i>_<j> per interval argument, pairwise "
                       "distinct, not a variable of the atom, search terminates), natural_head_atom/_interval/_basic_head/_choice_head/_head/_constraint, natural_rule, natural, mu. "
                       "The last sentence of C08 (integer-sorted variables only where every satisfying value is necessarily an integer) is lemma_iv_trivial: a ground instance giving an integer variable a "
                       "non-integer value is satisfied trivially.",
        "assumptions": [
            "ASSUMED CONTRACT asp::Rule::terms (for_each / cloned().collect() chains in the syntax-tree module): returns exactly the arguments and comparison sides of the rule",
            "tau_star_rule / choose_fresh_global_variables inside mu carry the contracts proved (resp. assumed as a composition) in unit tau (C01)",
            "INPUT SIZE: a head atom has fewer than 2^31 - 1 variable occurrences (the search counter j of fresh_variables_for_head_atom is an i32): precondition small_head / small_program",
            "D19: Mu::mu verified as an inherent method; D14/D24/D27 desugarings (enumerate loops; extend(map) -> insert loop; map/collect::<Option<Vec>>? -> loop with ?)",
            "SPEC ASSUMPTION shared with C01: the mini-gringo semantics in_vals of spec/tau_spec.rs (division convention) is the reference for both translations",
            "internal contracts of the body/head translators are SHAPE contracts (which formula is built); their meaning is given by the lemmas of spec/natrule_spec.rs, nathead2_spec.rs, natfinal_spec.rs — "
            "a meaning-preserving restructuring of these functions needs the shape predicates updated (it is reported as a failed obligation)",
            "indexmap `contains` accepts borrowed keys (&str for String); Display of i32/usize is the decimal numeral (T8)",
        ],
        "not_covered": ["asp::Rule::terms (assumed)", "impl Natural for Program / impl Mu for Program trait wrappers"],
    },
    "C09": {
        "units": ["problem"],
        "bounded_checks": ["strong", "external"],
        "level": "other",
        "property_obligations": ["Problem::create_unique_formula_names", "lemma_unique_names", "Problem::add_theory",
                                 "Problem::decompose", "Problem::decompose_independent", "Problem::decompose_sequential", "Problem::axioms", "Problem::conjectures"],
        "carriers": [],
        "explanation": "Two clauses of C09 are decided. (1) Formula names are unique: Verus proves on the real Problem::create_unique_formula_names that the i-th name is formula_{i}_{old name}, "
                       "roles and formulas are kept in order, and any two positions get different names whatever the old names are (decimal numerals are digit strings and injective); Problem::add_theory is proved to "
                       "append the annotated formulas in order with their own indices. (2) Exactly one conjecture per emitted problem, after the axioms: Verus proves on the real decompose / decompose_independent / "
                       "decompose_sequential that the i-th problem is the axioms (plus, sequentially, the earlier conjectures re-labelled axiom) followed by the single i-th conjecture. "
                       "NOT decided: declarations and typing (they exist only as text written by Display for Problem through core::fmt), "
                       "rename_conflicting_symbols (iterator filter: completeness not derivable in this Verus), add_annotated_formulas (generic IntoIterator).",
        "assumptions": [
            "T8/D6: format! with bare placeholders = concatenation of Display renderings; Display of usize is its decimal numeral (digits only, injective)",
            "D21/D22 desugaring of the iterator chains in axioms/conjectures/decompose_* (see C19)",
            "declarations/typing clauses of C09: NOT covered (fmt code)",
            "Problem::rename_conflicting_symbols, add_annotated_formulas: NOT verified",
        ],
        "not_covered": ["Display for Problem (declarations, types)", "rename_conflicting_symbols", "add_annotated_formulas"],
    },
    "C11": {
        "units": ["ensure"],
        "bounded_checks": ["applic"],
        "level": "other",
        "property_obligations": ["ExternalEquivalenceTask::ensure_program_tightness", "ExternalEquivalenceTask::ensure_placeholder_name_uniqueness",
                                 "ExternalEquivalenceTask::ensure_specification_roles_are_supported", "ExternalEquivalenceTask::ensure_valid_formula_representation",
                                 "ExternalEquivalenceTask::ensure_input_and_output_predicates_are_disjoint",
                                 "ExternalEquivalenceTask::ensure_specification_assumptions_do_not_contain_output_predicates",
                                 "ExternalEquivalenceTask::ensure_assumptions_only_contain_input_symbols",
                                 "UserGuide::placeholders", "UserGuide::input_predicates", "UserGuide::output_predicates", "ChecksTask::checks_block", "callsite_roles_checked_before_routing"],
        "carriers": ["AnnotatedFormula::predicates", "Formula::predicates"],
        "explanation": "Seven of the nine applicability checks are proved exact on the real code (Verus): ensure_program_tightness refuses iff the program is not tight and --bypass-tightness is off, and accepts a non-tight "
                       "program only with a warning; ensure_placeholder_name_uniqueness refuses iff two declared placeholders (distinct name/sort pairs, via the real UserGuide::placeholders) share a name; "
                       "ensure_specification_roles_are_supported refuses iff some formula has a role other than assumption/spec; ensure_valid_formula_representation refuses iff the representation is not tau-star; "
                       "ensure_input_and_output_predicates_are_disjoint refuses iff some predicate is declared both input and output (with the real UserGuide::input_predicates/output_predicates, proved to return exactly "
                       "the declared predicates); ensure_specification_assumptions_do_not_contain_output_predicates refuses iff some assumption of the specification mentions (real Formula::predicates) an output predicate; "
                       "ensure_assumptions_only_contain_input_symbols refuses iff some assumption mentions a predicate that is neither among the given private/input symbols nor declared input. "
                       "NOT decided: Tightness::is_tight and PrivateRecursion::has_private_recursion themselves (petgraph, HashMap), ensure_rule_heads_do_not_contain_input_predicates and "
                       "ensure_absence_of_private_recursion (map/collect into an IndexSet), regularity (= C08). "
                       "The call sites ARE decided: the block of ensure_* calls of ExternalEquivalenceTask::decompose is extracted as a statement fragment and proved (with stand-ins that record which check is applied to which "
                       "arguments) to let a task through only if every documented check was made on the right object — in particular each program is checked for private recursion against ITS OWN private predicates — "
                       "and the block precedes all translation and emission statements of decompose (it ends at the anchor `fn head_predicate`).",
        "assumptions": [
            "Tightness::is_tight is an uninterpreted function of the program here (petgraph is_cyclic_directed, HashMap): NOT verified",
            "PrivateRecursion::has_private_recursion: NOT verified",
            "ensure_absence_of_private_recursion, ensure_rule_heads_do_not_contain_input_predicates: NOT verified (into_iter().map(From::from).collect() into an IndexSet)",
            "indexmap shim: intersection(..).cloned().collect::<Vec<_>>() yields exactly the common elements; append = extend; difference(..).next() per indexmap documentation",
            "D23: `let v: Vec<_> = E.into_iter().filter(|p| ..).collect();` desugared to an explicit loop",
            "checks_block: D9 fragment of ExternalEquivalenceTask::decompose with the ensure_* methods as recording stand-ins; ensure_valid_formula_representation (first statement of decompose) and the computation of the private predicate sets precede the fragment and are not part of it",
        ],
        "not_covered": ["is_tight", "has_private_recursion", "ensure_rule_heads_do_not_contain_input_predicates", "ensure_absence_of_private_recursion"],
    },
    "C12": {
        "units": ["strong"],
        "bounded_checks": ["strong", "preamble", "external"],
        "level": "other",
        "property_obligations": ["StrongEquivalenceTask::transition_axioms", "transition", "lemma_transition_true", "lemma_transition_cover", "Predicate::to_formula",
                                 "Program::predicates", "lemma_program_preds"],
        "carriers": ["Formula::here", "Formula::there", "prepend_predicate", "Formula::apply", "Formula::free_variables", "Formula::quantify", "Rule::predicates", "Body::predicates"],
        "explanation": "h-implies-t axioms: Verus proves that the real StrongEquivalenceTask::transition_axioms (nested fn transition, Predicate::to_formula incl. its X{i} names, here/there, "
                       "free_variables, quantify, asp::Program::predicates and the queries below it) returns exactly one formula forall X1..Xn (hp(X) -> tp(X)) per predicate occurring in either program "
                       "(lemma_transition_cover: every occurring predicate is covered, nothing else is emitted), and that each such formula is true in every classical interpretation coupled to an HT interpretation "
                       "with H subset of T (lemma_transition_true) — so these axioms alone cannot make a problem provable. NOT covered: the symbol-order chain and the declarations (written only inside "
                       "Display for Problem through core::fmt) and the static preamble standard_interpretation.p.",
        "assumptions": [
            "symbol ordering axioms (Vec::sort_unstable + windows(2) inside Display for Problem): NOT under contract (fmt code)",
            "standard_interpretation.p (static preamble text): truth assumed, not code",
            "T8/D6: format!(\"X{i}\") is \"X\" followed by the decimal numeral of i",
        ],
        "not_covered": ["symbol_order axioms", "standard preamble"],
    },
    "C13": {
        "units": ["outline", "seq"],
        "bounded_checks": ["applic", "external"],
        "level": "other",
        "property_obligations": ["Formula::inductive_lemma", "lemma_induction", "lemma_induct", "lemma_ucl_valid",
                                 "Formula::definition", "AssembledExternalEquivalenceTask::forward_outline", "AssembledExternalEquivalenceTask::backward_outline", "lemma_outline_index", "lemma_def_ok", "lemma_definition_conservative", "lemma_pred_coin_cl", "lemma_preds_cover", "lemma_extend_len"],
        "carriers": ["Formula::universal_closure", "Variable::try_from", "WithWarnings::preface_warnings"],
        "explanation": "Inductive lemmas: Verus proves on the real CheckInternal::inductive_lemma (with the real unbox, universal_closure, free_variables, quantify and the C17 contract of substitute) that whenever it "
                       "returns Ok((base, step)), base and step together imply the lemma `forall V (N >= n -> F)` in every classical interpretation under every sort-respecting assignment — by an induction over the "
                       "integers k >= n inside Verus (lemma_induct), including n negative, N also bound inside F, and N not among the quantified variables. "
                       "Definitions: Verus proves on the real CheckInternal::definition (D19: as an inherent method) that whenever it returns Ok(p), the formula has the form `forall X (p(X) <-> F)` with X pairwise "
                       "distinct, every argument of the atom a variable, the arguments and X the same set, p (name/arity) not among the taken predicates, F without free variables outside X and without predicates "
                       "outside the taken ones (def_ok); and lemma_definition_conservative proves that every such formula is a conservative extension: each interpretation of the earlier vocabulary has an "
                       "expansion, differing only in the extent of p, in which the definition is true — which is what makes it safe as an axiom of every later problem. "
                       "Sequencing (first sentence of C13): the two outline blocks of the real AssembledExternalEquivalenceTask::decompose are extracted as statement fragments and proved to emit, for conjecture j of "
                       "lemma i, a problem assembled from exactly the stable premises, the premises of that direction, the accepted definitions of that direction (as axioms), the consequences of the lemmas 0..i-1 "
                       "and that conjecture, in emission order (lemma_outline_index: problem number offset(i)+j) — a lemma's consequences enter the axioms only after all its own problems were pushed. "
                       "NOT under contract: GeneralLemma::try_from, ProofOutline::from_specification (the growth of the taken set along the outline) and the final forward/backward problems "
                       "(flat_map over the lemmas).",
        "assumptions": [
            "Formula::substitute is used through its contract subst_ht, which is PROVED in unit subst (C17) on the same working tree",
            "IndexSet == is set equality (indexmap documentation); IndexSet::from_iter(vec) = insertion-ordered dedup; IndexSet::difference(..).next() yields an element of the first set that is not in the second, "
            "None only if there is none (indexmap documentation)",
            "D19: CheckInternal::definition and TryFrom<GeneralTerm> for Variable are verified as inherent methods (same bodies)",
            "unit seq: Problem::with_name/add_annotated_formulas/rename_conflicting_symbols/create_unique_formula_names are ASSUMED builder contracts over an uninterpreted `psrc` (the sequence of annotated formulas a problem was assembled from); std::iter::once per std docs; D9 fragments, D14, D28 (`vec.extend(e)` -> push loop), D6",
            "GeneralLemma::try_from, ProofOutline::from_specification, the final forward_problem/backward_problem assembly: NOT verified",
        ],
        "not_covered": ["ProofOutline::from_specification", "final forward/backward problem of AssembledExternalEquivalenceTask::decompose", "GeneralLemma::try_from"],
    },
    "C03": {
        "units": ["gamma", "strong"],
        "bounded_checks": ["strong"],
        "level": "other",
        "property_obligations": ["theorem_c05", "lemma_gamma", "StrongEquivalenceTask::transition_axioms", "lemma_transition_cover", "lemma_transition_true"],
        "carriers": ["Formula::gamma", "Formula::here", "Formula::there", "prepend_predicate", "Formula::apply"],
        "explanation": "Two of the three mechanisms of C03 are under contract: (1) gamma reduces HT satisfaction to classical satisfaction of the h/t copies (= C05, proved on the real code), and "
                       "(2) transition_axioms emits exactly one true axiom hp -> tp for EVERY predicate occurring in either program (proved on the real code, incl. asp::Program::predicates), which is what makes "
                       "a refuting interpretation have h-extents included in t-extents. NOT under contract: StrongEquivalenceTask::decompose itself (which side becomes axioms/conjectures per direction, the two simplification "
                       "stages = C07, eq-break = C19, decomposition) — closures over format!, flat_map and Compose are outside Verus' subset; tau*/mu correctness (= C01/C08).",
        "assumptions": [
            "StrongEquivalenceTask::decompose routing and flag plumbing: NOT verified",
            "Gamma for Theory (map/collect over the formulas): NOT verified",
            "tau_star / mu translations are correct (C01, C08): not part of this check",
        ],
        "not_covered": ["StrongEquivalenceTask::decompose", "Problem::add_theory", "decompose_independent/sequential"],
    },
    "C16": {
        "units": ["tptpnum", "ensure", "ext", "subst", "tau", "nat", "outline", "seq", "strong", "gamma", "break", "simp_int", "simp_cl", "apply", "problem", "prover", "files"],
        "bounded_checks": ["external", "applic", "crash"],
        "level": "other",
        "property_obligations": ["numeral_arm", "callsite_roles_checked_before_routing"],
        "carriers": [],
        "explanation": "What contracts can decide of C16: (1) every executable function under contract in any unit (listed under coverage.exec_functions_panic_free; extracted from the working tree on this run) is proved free of "
                       "panic!/unreachable!/unwrap-on-None/expect/out-of-range indexing and slicing/arithmetic overflow/non-termination (where a decreases clause is given) UNDER ITS STATED PRECONDITION, for all inputs; "
                       "(2) the numeral arm of the TPTP integer-term printer is panic-free for EVERY isize (no precondition); (3) a call-site obligation: whatever ensure_specification_roles_are_supported accepts "
                       "satisfies the entry condition under which the unreachable!() arms of the routing step are unreachable. NOT decided: the first sentence of C16 (arbitrary byte strings through the pest-generated parsers and clap), "
                       "numeral conversion in the parser (`parse().unwrap()`), functions not under contract (e.g. choose_fresh_global_variables' `max_taken_var + i`), and the entry conditions of other contracted functions at their real call sites.",
        "assumptions": [
            "parsing stage (pest VM, translate_pair numeral conversion) and command-line glue: NOT covered",
            "preconditions of contracted functions are assumed at their call sites except where a call-site obligation is listed",
            "T10/T11: std contracts of isize::abs / isize::unsigned_abs",
            "hangs: only functions with a `decreases` clause are proved terminating (apply_fixpoint is explicitly not)",
        ],
        "not_covered": ["parser stage", "clap", "functions outside the units", "call sites without a listed obligation"],
    },
    "C17": {
        "units": ["subst"],
        "bounded_checks": ["subst"],
        "level": "proof",
        "property_obligations": ["Formula::substitute", "theorem_c17", "lemma_subst_cl", "lemma_rename_step", "lemma_subst_under_block", "lemma_loop_init",
                                 "lemma_loop_keep", "lemma_loop_rename", "lemma_loop_final", "lemma_subst_atomic", "lemma_subst_unary", "lemma_subst_binary",
                                 "lemma_subst_blocked", "lemma_quant_set", "lemma_coin_ht", "lemma_coin_cl", "lemma_ssub_gen", "lemma_ssub_atomic_parts",
                                 "lemma_ssub_atomic_occ"],
        "carriers": ["IntegerTerm::substitute", "SymbolicTerm::substitute", "GeneralTerm::substitute", "GeneralTerm::from", "Atom::substitute",
                     "Comparison::substitute", "AtomicFormula::substitute", "Formula::free_variables", "GeneralTerm::variables", "Formula::quantify"],
        "explanation": "Verus proves, on the real bodies extracted from the working tree, that Formula::substitute(self, var, term) returns r with: for every HT interpretation, world and "
                       "assignment ht_sat(r,s) == ht_sat(self, s[var := value of term in s]) (hence the same classically: theorem_c17), fv(r) = fv(self) minus var plus vars(term) when var is free in self "
                       "(and fv(self) otherwise), for every formula, variable and sort-compatible term; the panic! arms of GeneralTerm::substitute are unreachable under sort compatibility; "
                       "termination via a size measure. The proof covers binders reusing the substituted name (blocked), binders naming variables of the term (renamed before descending), several "
                       "such binders in one block, fresh names colliding with later binders of the block, and same name at two sorts. The only unverified step is the infinite-iterator expression "
                       "Variable::sequence(..).find(..).unwrap(), replaced (rule D13) by a stub whose assumed contract is read off the conjuncts of the predicate in the real code.",
        "assumptions": [
            "D13: Variable::sequence(&v).find(|c| P(c)).unwrap() returns some variable of v's sort satisfying P (that `sequence` yields infinitely many distinct names, so `find` succeeds, and that `find` returns an element satisfying its predicate); the conjuncts of P are taken from the real code on every run",
            "T7: <[T]>::contains is membership w.r.t. structural equality (derived PartialEq)",
        ],
    },
    "C18": {
        "units": ["apply"],
        "bounded_checks": ["simp", "strong", "external", "trans"],
        "level": "other",
        "property_obligations": ["Formula::apply_fixpoint", "Formula::apply", "lemma_sapply_preserves_ht", "lemma_sapply_preserves_cl"],
        "carriers": [],
        "explanation": "Idempotence half of C18, partial correctness: Verus proves that the real Apply::apply_fixpoint (the trait's default method, specialised to "
                       "Formula, with the real Apply::apply) returns r with sapply(r, g) == r for every operation g the closure implements — one more pass changes nothing — and that "
                       "r has the meaning of the input whenever g is meaning-preserving. Termination is explicitly NOT claimed (exec_allows_no_decreases_clause) and byte-identical "
                       "output across processes is not a function-level property; both halves are not decided.",
        "assumptions": [
            "termination of apply_fixpoint is NOT proved (no decreases measure for the composed portfolio); #[verifier::exec_allows_no_decreases_clause]",
            "determinism across processes (hash seeds, thread timing) is not expressible as a contract on one call",
            "the closure passed to apply_fixpoint is assumed total and state-independent (FnMut whose ensures is a function of its argument)",
        ],
        "not_covered": ["termination", "cross-process determinism"],
    },
    "C07": {
        "units": ["simp_int", "simp_cl", "apply"],
        "bounded_checks": ["simp"],
        "level": "other",
        "property_obligations": ["evaluate_comparisons", "apply_negation_definition_inverse", "apply_reverse_implication_definition",
                                 "apply_equivalence_definition_inverse", "remove_identities", "remove_annihilations", "remove_idempotences",
                                 "remove_empty_quantifications", "remove_orphaned_variables", "join_nested_quantifiers", "lemma_orphans", "lemma_join", "lemma_drop_unused", "lemma_nested_blocks",
                                 "remove_double_negation", "extend_quantifier_scope", "lemma_scope_cl", "Formula::apply", "Formula::apply_fixpoint",
                                 "lemma_sapply_preserves_ht", "lemma_sapply_preserves_cl", "lemma_compose_preserves_ht", "lemma_compose_preserves_cl",
                                 "lemma_congruence_ht", "lemma_congruence_cl", "lemma_eval_comparisons", "lemma_link", "lemma_chain"],
        "carriers": [],
        "explanation": "Verus proves, directly on the real bodies, the SEMANTIC contract preserves_ht(result, input) — same truth value in every HT interpretation with H subset of T, in both "
                       "worlds, under every assignment; same classical truth value; no new free variables — for ALL 10 rewrites of the INTUITIONISTIC portfolio "
                       "(evaluate_comparisons incl. its loop, the three definition foldings, identities, annihilations, idempotences, empty quantifications, orphaned variables — sound because every sort is inhabited —, "
                       "and nested quantifiers of the same kind joined into one sorted, de-duplicated block), and the lifting of any "
                       "meaning-preserving operation through the real Apply::apply (recursive strategy), through composition, and through the real apply_fixpoint (fixpoint strategy). "
                       "Of the CLASSIC portfolio, remove_double_negation and extend_quantifier_scope are proved to preserve CLASSICAL meaning and free variables "
                       "(preserves_cl; they are not HT-valid and the contract says so). NOT under contract: "
                       "substitute_defined_variables, restrict_quantifier_domain, simplify_transitive_equality (iterator chains, enumerate in nested loops, retain), Compose::compose glue and the portfolio tables.",
        "assumptions": [
            "Formula::conjoin/disjoin carry an ASSUMED contract (left-nested fold; body uses Iterator::reduce)",
            "D23 (filter/collect desugared to a loop) in remove_orphaned_variables; slice::sort permutes (T12), Vec::dedup loses/invents no element (T14), Vec::append per vstd",
            "classic.rs: substitute_defined_variables, restrict_quantifier_domain, simplify_transitive_equality: NOT verified",
            "Compose::compose (impl Fn over a cloned iterator) and the INTUITIONISTIC/HT/CLASSIC tables: not under contract; lemma_compose_preserves_* is the spec-level statement",
        ],
        "not_covered": ["substitute_defined_variables", "restrict_quantifier_domain", "simplify_transitive_equality", "Compose::compose"],
    },
}


def load_known():
    p = os.path.join(VERIF, "known_findings.json")
    try:
        return json.load(open(p))
    except OSError:
        return {"findings": []}


def load_allow():
    p = os.path.join(VERIF, "spec", "allowed_assumptions.json")
    try:
        return json.load(open(p))
    except OSError:
        return {}


def run_property(pid, cfg, tier, seed, bless=False, t0=None):
    t0 = t0 or time.time()
    units = cfg["units"]
    results = vlib.run_units(units, tier, seed)
    allow = load_allow()
    if bless:
        for u, r in results.items():
            allow[u] = r["assumption_scan"]
        json.dump(allow, open(os.path.join(VERIF, "spec", "allowed_assumptions.json"), "w"), indent=1, sort_keys=True)
        print(f"blessed assumption scans for units {units}")
    undecided = []
    for u, r in results.items():
        if r["status"] == "undecided":
            undecided.append(f"{u}: {r['reason']}")
        extra = [h for h in r.get("assumption_scan", []) if h not in allow.get(u, [])]
        if extra and r["status"] != "undecided":
            undecided.append(f"{u}: assumption scan found items outside the committed allow-list: {extra[:5]}")
    failed = [f for r in results.values() for f in r.get("failed", [])]
    minimum = cfg.get("min_obligations", 1)
    ledger = []
    for u, r in results.items():
        for f in r.get("functions", []):
            if f["function"].split("::")[-1].startswith("canary_must_fail"):
                continue
            ledger.append({"unit": u, **f})
    if not undecided and len(ledger) < minimum:
        undecided.append(f"only {len(ledger)} obligations generated (minimum {minimum})")
    # stability reruns (thorough tier): other seeds, halved rlimit
    unstable = []
    reruns = []
    if tier == "thorough" and not undecided and not failed:
        for k, extra in enumerate([("--smt-option", f"smt.random_seed={seed + 1}"),
                                   ("--smt-option", f"smt.random_seed={seed + 7}"),
                                   ("--rlimit", "5")]):
            rr = vlib.run_units(units, tier, seed, extra_args=extra)
            for u, r in rr.items():
                reruns.append({"unit": u, "variant": " ".join(extra), "status": r["status"], "solver_ms": r.get("solver_ms")})
                if r["status"] != "ok":
                    unstable.append(f"{u} under {' '.join(extra)}: {r['status']} {r.get('reason','')[:200]}")
    # bounded stand-in on the real code (never counted as proved; see tools/bounded.py)
    import bounded as bnd
    bounded_runs = []
    bounded_fail = []
    for chk in cfg.get("bounded_checks", []):
        br = bnd.run(chk, tier)
        mine = [f for f in br.get("failures", []) if f.get("property") == pid]
        bounded_runs.append({"check": chk, "status": br["status"] if br["status"] != "failing" or mine else "ok", "cmd": br.get("cmd"), "stats": br.get("stats"),
                             "wall_s": br.get("wall_s"), "build_s": br.get("build_s"), "reason": br.get("reason"), "failing_inputs_for_this_property": len(mine)})
        bounded_fail.extend(mine)
    # known findings
    known = load_known()
    open_findings = [k for k in known.get("findings", []) if k.get("property") == pid and k.get("status", "open") == "open"]
    violations = []
    known_hits = []
    for f in failed:
        hit = [k for k in open_findings if k.get("obligation") == f["obligation"]]
        if hit:
            known_hits.append((f, hit[0]))
        else:
            violations.append(f)
    # a failed obligation without a failing input: before the suffix no-failing-input-found is printed, the bounded stand-in is run
    # once more with its deep preset (more inputs, more interpretations) to look for an input of the real code for the replay file
    if violations and not bounded_fail and tier != "thorough" and os.environ.get("VERIF_NO_ESCALATION") != "1":
        for chk in cfg.get("bounded_checks", []):
            br = bnd.run(chk, "thorough", timeout_s=900)
            mine = [f for f in br.get("failures", []) if f.get("property") == pid]
            bounded_runs.append({"check": chk + " (deep preset, after a failed obligation)", "status": br["status"] if br["status"] != "failing" or mine else "ok", "cmd": br.get("cmd"),
                                 "stats": br.get("stats"), "wall_s": br.get("wall_s"), "build_s": br.get("build_s"), "reason": br.get("reason"), "failing_inputs_for_this_property": len(mine)})
            bounded_fail.extend(mine)
            if mine:
                break
    # evidence
    wall = round(time.time() - t0, 2)
    discharged = sum(1 for f in ledger if f["success"])
    items = []
    for u, r in results.items():
        for it in r.get("items", []):
            items.append({"unit": u, **it})
    samples = sorted(ledger, key=lambda f: -f["time_us"])[:6]
    prop_obl = cfg.get("property_obligations", [])
    carriers = cfg.get("carriers", [])
    assumptions = list(cfg.get("assumptions", []))
    for u, r in results.items():
        for h in r.get("assumption_scan", []):
            assumptions.append(f"[{u}] {h}")
    if unstable:
        assumptions.append("UNSTABLE under seed/rlimit variation: " + "; ".join(unstable))
    for k in open_findings:
        if k.get("static"):
            assumptions.append("OPEN KNOWN FINDING (outside the contracts): " + k.get("what", "") + " — " + k.get("demo", ""))
    primary = next((b for b in bounded_runs if (b.get("stats") or {}).get("evaluations")), None)
    ev = {
        "property_id": pid,
        "tier": tier,
        "seed": seed,
        "level": cfg["level"],
        "coverage": {
            "obligations": len(ledger),
            "discharged": discharged,
            "checker_cmd": "; ".join(r.get("cmd", "") for r in results.values()),
            "trusted_base": TRUSTED_COMMON + cfg.get("trusted_extra", []),
            "explanation": cfg["explanation"],
            "back_end": "verus-z3",
            "solver_ms": {u: r.get("solver_ms") for u, r in results.items()},
            "property_obligations": [f for f in ledger if f["function"].split("::")[-1] in prop_obl or f["function"] in prop_obl],
            "carrier_obligations": [f for f in ledger if f["function"] in carriers],
            "functions_under_contract": [i for i in items if " fn " in (" " + i["item"])],
            "exec_functions_panic_free": sorted({f"{f['unit']}::{f['function']}" for f in ledger if f["mode"] == "exec" and f["success"]}),
            "types_extracted": [i["item"] for i in items if " fn " not in (" " + i["item"])],
            "extraction_drops": "derives, use lines, test modules, impl_node! (Display/FromStr/Node), doc comments inside types, and every function not named in the unit template",
            "bounded": cfg.get("bounded", []),
            "bounded_stand_in": {"label": "bounded - runs the compiled real code on enumerated small inputs against an executable oracle; never counted as proved",
                                 "runs": bounded_runs, "failing_inputs": bounded_fail[:10]},
            "complete_by_enumeration": cfg.get("complete_by_enumeration", []),
            "not_covered": cfg.get("not_covered", []),
            "vacuity_guards": {u: r.get("canaries") for u, r in results.items()},
            "stability_reruns": reruns,
            "failure_confirmation_runs": {u: r.get("confirmation_runs") for u, r in results.items() if r.get("confirmation_runs")},
            "unstable_obligations": {u: r.get("unstable") for u, r in results.items() if r.get("unstable")},
            "samples": samples,
            "unit_sha256": {u: r.get("unit_sha256") for u, r in results.items()},
            "undecided": undecided,
            **({"evaluations": primary["stats"]["evaluations"], "distinct_nontrivial": primary["stats"].get("distinct_nontrivial", 0),
                "rule": primary["stats"].get("rule", ""), "samples": primary["stats"].get("samples", []) or ["(none)"]} if cfg.get("bounded_only") and primary else {}),
        },
        "assumptions": assumptions,
        "wall_s": wall,
        "violations": len(violations) + len(bounded_fail),
    }
    evdir = os.environ.get("VERIF_EVIDENCE_DIR", os.path.join(VERIF, "evidence"))
    os.makedirs(evdir, exist_ok=True)
    json.dump(ev, open(os.path.join(evdir, f"{pid}.json"), "w"), indent=1)
    for f, k in known_hits:
        print(f"KNOWN-FINDING: property={pid} {k.get('what', f['obligation'])}")
    # open findings that no obligation can detect (found by reading, reproduced on the real binary): listed on every run
    for k in open_findings:
        if k.get("static"):
            print(f"KNOWN-FINDING: property={pid} {k.get('what', '')}")
    open_inputs = {k.get("bounded_input") for k in open_findings if k.get("bounded_input")}
    for f in [f for f in bounded_fail if f["input"] in open_inputs]:
        print(f"KNOWN-FINDING: property={pid} bounded input {f['input']}")
    bounded_fail = [f for f in bounded_fail if f["input"] not in open_inputs]
    if bounded_fail and not violations:
        rpdir = os.environ.get("VERIF_REPLAY_DIR", os.path.join(VERIF, "replays"))
        os.makedirs(rpdir, exist_ok=True)
        rp = os.path.join(rpdir, f"{pid}.replay.txt")
        with open(rp, "w") as fh:
            fh.write(f"property {pid}: failing inputs of the real code (working tree of {vlib.REPO}), found by the bounded stand-in\n")
            fh.write("Deductive check: " + ("undecided: " + "; ".join(undecided)[:600] if undecided else "all obligations discharged (the failing behaviour is outside the functions under contract, or allowed by an assumed contract)") + "\n")
            fh.write(f"Re-run: /verif/check {pid} --tier {tier}\n\n")
            for f in bounded_fail[:20]:
                fh.write(f"== input: {f['input']}\n{f['detail']}\n\n")
        for f in bounded_fail[:5]:
            print(f"FAILING-INPUT {f['input']}: {f['detail'][:300]}")
        print(f"VIOLATION property={pid} replay={rp}")
        return 1
    if violations:
        rpdir = os.environ.get("VERIF_REPLAY_DIR", os.path.join(VERIF, "replays"))
        os.makedirs(rpdir, exist_ok=True)
        rp = os.path.join(rpdir, f"{pid}.replay.txt")
        with open(rp, "w") as fh:
            fh.write(f"property {pid}: failed obligations on the working tree of {vlib.REPO}\n")
            if bounded_fail:
                fh.write("Verus reports no counterexamples; the bounded stand-in found failing inputs of the real code:\n")
                for f in bounded_fail[:20]:
                    fh.write(f"== input: {f['input']}\n{f['detail']}\n\n")
            else:
                fh.write("No concrete failing input: Verus reports no counterexamples and the bounded stand-in found none, neither with its quick nor with its deep preset (no-failing-input-found).\n")
            fh.write(f"Re-run: /verif/check {pid} --tier {tier}\n\n")
            for f in violations:
                fh.write(f"== obligation {f['obligation']}\n")
                for m in f["messages"]:
                    fh.write(m + "\n\n")
        for f in violations:
            print(f"FAILED-OBLIGATION {f['obligation']}: {f['messages'][0].splitlines()[0] if f['messages'] else ''}")
        for f in bounded_fail[:5]:
            print(f"FAILING-INPUT {f['input']}: {f['detail'][:300]}")
        print(f"VIOLATION property={pid} replay={rp}" + ("" if bounded_fail else " no-failing-input-found"))
        return 1
    if cfg.get("bounded_only") and any(b["status"] == "unavailable" for b in bounded_runs):
        undecided.append("the bounded stand-in (the only check of this property) could not run: " + "; ".join(str(b.get("reason")) for b in bounded_runs if b["status"] == "unavailable")[:600])
    if undecided:
        for u in undecided:
            print(f"UNDECIDED property={pid} reason={u[:1500]}")
        return 2
    print(f"OK property={pid} tier={tier} obligations={len(ledger)} discharged={discharged} wall_s={wall}" + (" bounded=" + ",".join(f"{b['check']}:{b['status']}" for b in bounded_runs) if bounded_runs else ""))
    return 0
