#!/usr/bin/env python3
"""Runs every seeded change against the checks of its property (and related ones) on a scratch copy of /repo/src
(development table; the registered procedure `git -C /repo apply ... ; ./check ; git -C /repo checkout -- .` gives the same
verdicts because checks read only /repo/src).  Writes seeded/RESULTS.md and updates seeded/<id>/meta.json:detected_by."""
import json, os, shutil, subprocess, sys, tempfile
VERIF = os.path.dirname(os.path.dirname(os.path.abspath(__file__)))
ALSO = {"C03": ["C12", "C05"], "C19": ["C03", "C07"], "C16": ["C11"], "C11": ["C16"], "C13": ["C17"], "C08": ["C01"], "C01": ["C08"]}
sys.path.insert(0, os.path.join(VERIF, "tools"))
import props
rows = []
work = tempfile.mkdtemp(prefix="anthem-seeds-")
env = dict(os.environ, VERIF_BUILD=os.path.join(work, "build"), VERIF_EVIDENCE_DIR=os.path.join(work, "evidence"), VERIF_REPLAY_DIR=os.path.join(work, "replays"))
only = set(sys.argv[1:])   # optional: seed ids (prefixes) to re-run; the others keep the verdicts stored in their meta.json
for sid in sorted(os.listdir(os.path.join(VERIF, "seeded"))):
    d = os.path.join(VERIF, "seeded", sid)
    mp = os.path.join(d, "meta.json")
    if not os.path.isfile(mp):
        continue
    meta = json.load(open(mp))
    prop = meta["property"]
    if meta.get("obsolete"):
        rows.append((sid, prop, "obsolete: " + meta["obsolete"], {"-": "obsolete"}))
        continue
    if only and not any(sid.startswith(o) for o in only):
        v = meta.get("detected_by", {}).get("checks", {})
        rows.append((sid, prop, "; ".join(f"{p}: {x}" for p, x in v.items()) or "(not run)", v))
        continue
    src = os.path.join(work, "repo")
    shutil.rmtree(src, ignore_errors=True)
    os.makedirs(src)
    shutil.copytree("/repo/src", os.path.join(src, "src"))
    for f in ("Cargo.toml", "Cargo.lock"):
        shutil.copy(os.path.join("/repo", f), os.path.join(src, f))
    r = subprocess.run(["patch", "-s", "-p1", "-i", os.path.join(d, "patch.diff")], cwd=src, capture_output=True, text=True)
    if r.returncode != 0:
        rows.append((sid, prop, "patch does not apply", {}))
        continue
    verdicts = {}
    for p in [prop] + [q for q in ALSO.get(prop, []) if q in props.PROPS]:
        if p not in props.PROPS:
            verdicts[p] = "not claimed"
            continue
        e = dict(env, VERIF_REPO=src)
        cp = subprocess.run([os.path.join(VERIF, "check"), p], capture_output=True, text=True, env=e, cwd=VERIF)
        out = cp.stdout.strip().splitlines()
        if cp.returncode == 1:
            obl = [l.split()[1].rstrip(":") for l in out if l.startswith("FAILED-OBLIGATION")]
            nb = sum(1 for l in out if l.startswith("FAILING-INPUT"))
            verdicts[p] = "VIOLATION " + ", ".join(obl[:3]) + (f" [bounded stand-in: failing inputs]" if nb else "")
        elif cp.returncode == 0:
            verdicts[p] = "pass (missed)"
        else:
            reason = next((l for l in out if l.startswith("UNDECIDED")), "")[:160]
            verdicts[p] = "UNDECIDED " + reason.split("reason=", 1)[-1][:120]
    caught = [p for p, v in verdicts.items() if v.startswith("VIOLATION")]
    meta["detected_by"] = {"checks": verdicts, "caught": caught}
    json.dump(meta, open(mp, "w"), indent=1)
    rows.append((sid, prop, "; ".join(f"{p}: {v}" for p, v in verdicts.items()), verdicts))
    print(sid, "->", "; ".join(f"{p}: {v}" for p, v in verdicts.items()), flush=True)
shutil.rmtree(work, ignore_errors=True)
with open(os.path.join(VERIF, "seeded", "RESULTS.md"), "w") as fh:
    fh.write("# Seeded changes vs. checks (quick tier)\n\n| seed | property | verdicts |\n|---|---|---|\n")
    for sid, prop, txt, _ in rows:
        fh.write(f"| {sid} | {prop} | {txt} |\n")
    n = sum(1 for r in rows if any(v.startswith("VIOLATION") for v in r[3].values()))
    live = [r for r in rows if r[3].get("-") != "obsolete"]
    fh.write(f"\n{len(rows) - len(live)} seeds are obsolete (a later repair of /repo rewrote the code they change or made their input unacceptable).\n")
    fh.write(f"\n{n} of {len(live)} live seeded changes are reported as VIOLATION by at least one check; the others are UNDECIDED (construct outside Verus' subset / lost anchor) or in functions not under contract.\n")
