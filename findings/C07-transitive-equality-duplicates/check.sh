#!/bin/bash
set -u
BIN=${1:-/repo/target/debug/anthem}
D=$(dirname $(readlink -f $0)); rc=0
for st in shallow recursive fixpoint; do
  out=$($BIN simplify --portfolio classic --strategy $st $D/dup.spec 2>&1)
  case "$out" in *"X\$i = X\$i + 1"*) ;; *) echo "FAIL $st: $out"; rc=1;; esac
done
exit $rc
