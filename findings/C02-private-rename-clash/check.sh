#!/bin/bash
set -u
BIN=${1:-/repo/target/debug/anthem}
D=$(dirname $(readlink -f $0)); T=$(mktemp -d); rc=0
$BIN verify --equivalence external --no-proof-search --save-problems $T $D/spec.lp $D/prog.lp $D/g.ug >/dev/null 2>&1 || { echo "FAIL: anthem exit status"; rc=1; }
for f in $T/*.p; do
  dup=$(grep -o "axiom, !\[V1_g: general\]: (\([a-z_]*\)(V1_g) <=>" $f | sort | uniq -d)
  [ -z "$dup" ] || { echo "FAIL $f: predicate defined twice: $dup"; rc=1; }
done
rm -rf $T; exit $rc
