#!/bin/bash
# reproduces the two OPEN findings on the real binary: exit 0 if BOTH still reproduce (informational)
set -u
BIN=${1:-/repo/target/debug/anthem}
D=$(dirname $(readlink -f $0)); T=$(mktemp -d); mkdir $T/a $T/b
$BIN verify --equivalence strong --no-proof-search --save-problems $T/a $D/arity.lp $D/arity.lp >/dev/null 2>&1
$BIN verify --equivalence external --no-proof-search --save-problems $T/b $D/placeholder.lp $D/placeholder.lp $D/placeholder.ug >/dev/null 2>&1
a=$(grep -c "type, hp:" $T/a/forward_0.p); b=$(grep -c "type, n_i:" $T/b/forward_problem_0.p)
echo "hp declared $a times; n_i declared $b times"; rm -rf $T
[ "$a" = 2 ] && [ "$b" = 2 ]
