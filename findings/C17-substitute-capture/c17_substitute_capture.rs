// Demonstration for the two C17 defects found while proving Formula::substitute (see /verif/known_findings.json).
// Run in a checkout of potassco/anthem: copy to tests/c17_substitute_capture.rs, `cargo test --offline --test c17_substitute_capture`.
// Fails on the tree before the fix: commit, passes after it.
use anthem::syntax_tree::fol::sigma_0::{Formula, GeneralTerm, Variable};

fn subst(src: &str, var: &str, term: &str) -> Formula {
    let f: Formula = src.parse().unwrap();
    let v: Variable = var.parse().unwrap();
    let t: GeneralTerm = term.parse().unwrap();
    f.substitute(v, t)
}

/// Defect 1: the fresh name chosen for a renamed binder may be the substituted variable itself when that
/// variable is not free in the body: (exists Y p(Y))[Y1 := Y] became `exists Y1 p(Y)` — a closed formula
/// turned into one with the free variable Y (true iff p holds of Y's value, instead of for some value).
#[test]
fn fresh_name_must_differ_from_the_substituted_variable() {
    let r = subst("exists Y p(Y)", "Y1", "Y");
    assert!(r.free_variables().is_empty(), "substituting for a variable that is not free must not create free variables: {r}");
}

/// Defect 2: two binders of one block could be renamed to the same fresh name, because names chosen
/// earlier in the block were not excluded: with Y1..Y10 taken by the term, binder Y -> Y11 and binder Y1 -> Y11,
/// merging two distinct bound variables: exists Y Y1 p(Y,Y1,X) became exists Y11 Y11 p(Y11,Y11,..).
#[test]
fn two_binders_must_not_be_renamed_to_the_same_name() {
    let r = subst(
        "exists Y$i Y1$i p(Y$i, Y1$i, X$i)",
        "X$i",
        "Y$i + Y1$i + Y2$i + Y3$i + Y4$i + Y5$i + Y6$i + Y7$i + Y8$i + Y9$i + Y10$i",
    );
    match &r {
        Formula::QuantifiedFormula { quantification, .. } => {
            assert_eq!(quantification.variables.len(), 2);
            assert_ne!(quantification.variables[0], quantification.variables[1], "distinct binders merged: {r}");
        }
        _ => panic!("unexpected shape {r}"),
    }
}
