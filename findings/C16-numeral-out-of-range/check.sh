#!/bin/bash
# bounded regression on the real binary (built from the current tree): out-of-range literals are errors, not panics
set -u
BIN=${1:-/repo/target/debug/anthem}
D=$(dirname $(readlink -f $0)); rc=0
for f in big.lp; do out=$($BIN translate --with tau-star $D/$f 2>&1); s=$?; [ $s -eq 1 ] && ! grep -q "panicked at" <<<"$out" || { echo "FAIL $f status=$s"; rc=1; }; done
out=$($BIN parse --as user-guide $D/big.ug 2>&1); s=$?; [ $s -eq 1 ] && ! grep -q "panicked at" <<<"$out" || { echo "FAIL big.ug status=$s"; rc=1; }
exit $rc
