#!/bin/bash
set -u
BIN=${1:-/repo/target/debug/anthem}
D=$(dirname $(readlink -f $0)); T=$(mktemp -d); rc=0
$BIN verify --equivalence external --no-proof-search --save-problems $T $D/a.lp $D/b.lp $D/g.ug >/dev/null 2>&1 || { echo "FAIL: anthem exit status"; rc=1; }
grep -q "q(f__symbolic__(\([a-z_]*\))) & (~q(f__symbolic__(\1)))" $T/forward_problem_0.p && { echo "FAIL: the two constants were merged"; rc=1; }
rm -rf $T; exit $rc
