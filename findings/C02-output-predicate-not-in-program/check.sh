#!/bin/bash
B=$(/verif/bounded/build.sh) || exit 2
A=$(dirname $B)/anthem
D=$(mktemp -d); mkdir $D/out
cd /verif/findings/C02-output-predicate-not-in-program
$A verify --equivalence external --no-proof-search --save-problems $D/out a.lp b.lp g.ug >/dev/null 2>&1
if ! ls $D/out | grep -q backward; then echo "no backward problem: the output predicate p has no completed definition in the empty program"; rm -rf $D; exit 1; fi
rm -rf $D; echo ok
