#!/bin/bash
# bounded regression: the negated chain must be printed with parentheses of its own
B=$(/verif/bounded/build.sh) || exit 2
A=$(dirname $B)/anthem
D=$(mktemp -d); mkdir $D/out
cd /verif/findings/C09-chained-comparison-operand
$A verify --equivalence external --no-simplify --no-proof-search --save-problems $D/out b.lp s.spec g.ug >/dev/null 2>&1
if grep -q '(~p__less_equal__(f__integer__(0), X_g) & p__less_equal__' $D/out/*.p; then echo "mis-grouped chained comparison"; rm -rf $D; exit 1; fi
rm -rf $D; echo ok
