#!/bin/bash
# exit 1 while the defect is present (the order axiom contradicts the standard order of the original names)
B=$(/verif/bounded/build.sh) || exit 2
A=$(dirname $B)/anthem
D=$(mktemp -d); mkdir $D/out
cd /verif/findings/C12-symbol-order-after-renaming
$A verify --equivalence external --no-proof-search --save-problems $D/out a.lp b.lp g.ug >/dev/null 2>&1
if grep -q 'p__less__(f__symbolic__(aB), f__symbolic__(a__s))' $D/out/*.p; then echo "symbol_order axiom aB < a__s although a__s denotes a"; rm -rf $D; exit 1; fi
rm -rf $D; echo ok
